#!/usr/bin/env python3-vt
"""validate MANIFEST.json and every evidence file against the given schemas"""
import json, sys, glob, jsonschema
m = json.load(open('/verif/MANIFEST.json'))
jsonschema.validate(m, json.load(open('/root/.vp/MANIFEST.schema.json')))
ids = [json.loads(l)['id'] for l in open('/verif/properties.jsonl')]
claimed = [c['property_id'] for c in m['checks']]
na = [c['property_id'] for c in m.get('not_applicable', [])]
assert sorted(claimed + na) == sorted(ids), (sorted(claimed + na), ids)
es = json.load(open('/root/.vp/EVIDENCE.schema.json'))
for f in sorted(glob.glob('/verif/evidence/*.json')):
    jsonschema.validate(json.load(open(f)), es)
    print('ok', f)
print('manifest ok:', len(claimed), 'claimed,', len(na), 'not claimed')
