#!/usr/bin/env python3
"""regenerates /verif/MANIFEST.json from the table below (claimed checks) + properties.jsonl"""
import json, subprocess

NOTE = ("Assumes sequential consistency at atomic-operation granularity (weak-memory reorderings are not explored); "
        "schedule points are atomics, AtomicOption, SegQueue, locks, blocking calls and one point after each write-type atomic; "
        "generator context switch, crossbeam, parking_lot fast paths and the kernel (eventfd/epoll, sockets) are real and trusted; "
        "default feature set (work_steal, io_cancel, io_timeout); oracles are validated by the mutants in /verif/mutants and /verif/seeded.")
TECH = "deterministic simulation with fault injection (seeded schedule/fault search on the real code, invariant + history oracles, replayable minimised traces)"

CLAIMS = {
 "C01": "Random programs of 1-8 coroutines (spawned from threads and coroutines, plain/named/custom-stack/id/spawn_local, nested children, yields, sleeps, parks, scripted panics, cancels) on the REAL runtime with 1-4 workers under seeded schedules, stalls and spurious CAS failures. Oracles: closure started exactly once, never resident on two OS threads (engine co_enter/co_leave), finished before join/wait/is_done say so, join returns exactly value / panic payload / Cancel, bounded liveness in virtual time, no crash.",
 "C02": "Program A: n rounds of coroutine::park/park_timeout with one unpark per round issued (by thread or coroutine unparkers) after the previous park returned, at a random distance - pure liveness. Program B: fresh Blocker per waiter (coroutine -> Park, thread -> ThreadPark token loop), partner unparks before/during/after/never, optional cancel, timeouts 0..10 ms incl. sub-ms and fractional: Ok => an unpark was invoked, Timeout => not before the deadline and no unpark had returned before it, Canceled only if cancelled; every park returns (hung verdict otherwise). Stalls are injected inside the register/re-check window.",
 "C05": "2-4 actors (random thread/coroutine mix) doing lock / try_lock with yields and sleeps inside the section, one coroutine optionally cancelled at a random point. Online: occupancy <= 1 inside the section, a plain counter read-modified-written across a schedule point (lost update), try_lock never succeeds while held and never fails when nobody held or requested the lock during the whole call; end: counter == completed sections, mutex free and not poisoned, every actor finished (stranded waiter = hung verdict).",
 "C06": "mpsc (1-3 cloned senders), spsc, mpmc (1-3 senders x 1-3 receivers) with thread/coroutine endpoints; receivers mix recv / try_recv / recv_timeout / iterators and run until they see the disconnect; channel pre-rolled past a queue block (64/32/31 slots). Oracles: canary payloads + drop table (each value received exactly once, nothing foreign), per-sender order per receiver, successful sends == receives, recv_timeout never early, bounded liveness (a receiver not woken by the send/disconnect = hung verdict).",
 "C07": "Same program family weighted to the disconnect: last sender dropped at a random point relative to each receiver's try-receive / register / park steps, 1-3 mpmc receivers in the window together, 0-n values still queued; second half: receivers quit and drop after k values while senders keep sending. Oracles: every receiver drains what it can, then gets Disconnected and returns (hung verdict otherwise); single receiver: Disconnected is final and nothing is queued behind it; send fails only once every receiver began dropping, hands the value back, never succeeds after the last receiver's drop returned; all values dropped exactly once when the channel is gone.",
 "C10": "Semphore: 2-5 actors doing wait / wait_timeout (0..3 ms incl. sub-ms) / try_wait / post from threads and coroutines with initial value 0-3, a feeder guaranteeing enough permits, optional cancel of a waiter. Online: successful waits <= initial + posts invoked; quiescence: get_value == initial + posts - successes and the permits are takeable; timeouts never early; all waits return. SyncFlag: waiters before/during/after fire, timed waiters racing the fire, monitor: never un-fired after fire returned, wait_timeout false only at/after the deadline and only if fire had not returned before it.",
 "C11": "Condvar ticket protocol (tickets / broadcast flag under one Mutex; wait, wait_while, wait_timeout; notify inside or outside the lock; cancel of a waiter): every waiter gets its ticket (a swallowed notification = hung verdict), mutex exclusively re-acquired when wait returns (occupancy), mutex free and unpoisoned at the end. Barrier(2-4) x 1-3 generations: nobody returns before the n-th arrival, exactly one leader per generation, all return. WaitGroup: wait returns only after every other clone's drop began, and returns.",
 "C12": "2-4 actors doing read / write / try_read / try_write with yields and sleeps inside, in clean state and after a writer panicked holding the guard (guards recovered from PoisonError / TryLockError::Poisoned and used), optional cancel of one coroutine at a random point (also while it holds guards). Online: writers <= 1 and writers*readers == 0, data stable under guards, no panic escapes a guard drop; end: try_write, try_read, try_write succeed after all guards are gone, not poisoned unless a writer panicked, every actor finished.",
 "C04": "The real spmc queue in three families: (a) the scheduler's shape, 2-3 threads each owning a Local with Steal handles to the others (push_back / pop / steal_into), (b) the raw queue with one owner and 1-3 consumers (pop / bulk_pop), pre-rolled to block boundaries, (c) heavy traffic over several blocks with the allocator in LIFO-reuse or poison mode and long preemptions of a taker, which reaches the 'block freed and re-allocated at the same address' (ABA) case. Owners keep pushing while a taker still has an operation outstanding (a claimed slot completes once filled). Oracles: every task obtained exactly once (explicit taken table: a task silently dropped by the queue is a loss), canaries + drop table (never an uninitialised or freed slot), per-consumer ascending order and contiguous bulk batches on the raw queue, all operations return.",
 "C08": "1-4 actors (thread/coroutine) each doing 1-3 timed waits of random kinds - sleep, mpsc/mpmc recv_timeout, Semphore/SyncFlag/Condvar wait_timeout, Blocker::park(timeout), coroutine::park_timeout - with d from {0, 1 ns, 999 ns, 0.5 ms, 999 999 ns, 1 ms, 1 ms+1 ns, 1.5 ms, 2 ms+1 ns, 3 ms, 10 ms, 100 ms, 1 s, 1 h} drawn from a per-run palette so equal intervals share a timer list and different ones compete in the heap; a third of the waits is satisfied by a helper before / just before / at / after the deadline (exercises del_timer / remove of head, middle, last entries). Oracles: Timeout never before d (exact, virtual clock), a wait nobody satisfied never reports success, every wait returns (hung verdict), and in quiet runs (no stall, no tick) a timer fires within 1 ms of its deadline (ns-exact for sleep and thread waits, whole-ms for Park based waits).",
 "C14": "coroutine::scope with 1-4 children (nested scope inside a child, explicit ScopedJoinHandle joins, scripted child panics) owned by a thread or a coroutine, with a panic of the owner inside the scope body or a cancel of the owner at a random point (also while it waits at the scope end); select! with 2-3 arms one of which waits in join! (safe code only) while another arm wins. A frame token whose Drop marks the owner's frame dead is checked by every child at each of its steps; oracles: no child / arm ever runs after the frame died, scope/select! returns only when started == ended children and no arm is executing, explicit joins return the child's value, the first child panic reaches the owner, owner outcome is the scripted one, no crash.",
 "C16": "cqueue::scope with 1-4 select coroutines of 1-3 events each (tops: yield / sleep / recv on a per-arm channel / nothing), thread or coroutine poller with poll(None) or poll(timeout), leaving the scope after k events (drop drains the rest), Selector::remove of an arm, scripted panic in a top or bottom half; select! with 2-4 arms firing at the same virtual instant and a panicking arm. Oracles per arm and event: top then bottom, each exactly once, an event returned by poll has had its bottom half run at that moment and is returned once, Finished only when every select coroutine has ended, Timeout never early, no select coroutine executing when the scope / select! returns or unwinds, select! returns the token of an arm whose halves both ran, an arm's panic payload reaches the poller, poll always returns (hung / livelock verdicts).",
 "C19": "mpsc_list_v1: 1-3 producers push 1-5 entries and hand the Entry handles to the single consumer, which interleaves pop, pop_if, peek, is_empty, remove(handle) of oldest / newest / already consumed entries and handle drops while the producers append; plain mpsc_list: push/pop/is_empty. Oracles: every entry consumed exactly once (pop xor remove), remove returns the handle's own value and never a consumed one, popped values respect the real-time push order, 'empty' answers only if the list could have been empty, push's head report sound in both directions, remove -> None on an unconsumed entry only while a possible direct successor push is in flight (the documented exception), drop table, plain list: FIFO linearizability.",
 "C03": "1-3 producers and one consumer (pop, bulk_pop, peek+pop, len, is_empty) on the real mpsc/spsc block queues, pre-rolled so the concurrent phase straddles block boundaries and block recycling, optional drop with values inside; spurious compare_exchange_weak failures. Oracles: canary payloads + drop table (exactly-once, no uninitialised/freed slot), FIFO linearizability of the whole history (exact for one consumer), len/is_empty bounds.",
}

props = [json.loads(l) for l in open('/verif/properties.jsonl')]
hooks = subprocess.run(['git','-C','/repo','log','--format=%h %s'],capture_output=True,text=True).stdout.splitlines()
hook_commits = [l.split()[0] for l in hooks if l.split(' ',1)[1].startswith('verif hooks')]
checks = []
for p in props:
    i = p['id']
    if i not in CLAIMS: continue
    checks.append({
        "property_id": i,
        "quick_cmd": f"./check {i} --tier quick",
        "thorough_cmd": f"./check {i} --tier thorough",
        "evidence_file": f"/verif/evidence/{i}.json",
        "replay_cmd_template": "./check replay {path}",
        "engine": "mayverif",
        "level_claimed": {"category": "exploration", "text": CLAIMS[i] + " Sampling of schedules and fault plans, not exhaustive.", "design_ref": f"DESIGN.md §7 {i}"},
        "level_note": NOTE,
        "technique": TECH,
    })
m = {
 "version": 1,
 "setup_cmd": "./check setup",
 "hooks": {
  "guard": "may_verif",
  "enable": "RUSTFLAGS=\"--cfg may_verif\" via /verif/sim/.cargo/config.toml; the harness crate depends on /repo and /repo/may_queue by path, so every check rebuilds them from the working tree",
  "baseline_off_cmd": "cd /repo && cargo nextest run --workspace --no-fail-fast --tool-config-file pb:/w/lib/nextest.toml --profile pb --test-threads 8 --offline",
  "source_commits": hook_commits[::-1],
  "add_only": True
 },
 "engines": [{"name": "mayverif", "path": "/verif/sim", "serves_properties": [c['property_id'] for c in checks],
   "kind_free_text": "deterministic simulation: baton scheduler over real OS threads (one runs at a time, engine decides at every atomic operation), virtual discrete-event clock, seeded strategies (random walk / sticky / PCT), fault injection (stalls, spurious CAS-weak failures, spurious thread-park returns, cancel/panic at scripted points, allocator/knob swarm), one process per run, Rust driver fans out over all cores, ddmin minimisation, replay files"}],
 "checks": checks,
 "not_applicable": [{"property_id": p['id'], "reason": "check under construction in this session (not a not-applicable claim; will move to checks)"} for p in props if p['id'] not in CLAIMS],
 "notes": "See DESIGN.md. known_findings.json lists genuine defects (all repaired so far by 'fix:' commits in /repo)."
}
json.dump(m, open('/verif/MANIFEST.json','w'), indent=1)
print("claimed:", [c['property_id'] for c in checks])
