//! the table that maps each property to its scenario families and budgets

pub struct Prop {
    pub id: &'static str,
    /// (scenario, weight)
    pub scenarios: &'static [(&'static str, u32)],
    pub quick_runs: u64,
    pub thorough_runs: u64,
    pub quick_cap_s: f64,
    pub thorough_cap_s: f64,
    /// probes that should be non-zero in a thorough run
    pub probes: &'static [&'static str],
    pub real: &'static [&'static str],
    pub stub: &'static [&'static str],
    pub assumptions: &'static [&'static str],
}

const STUB_COMMON: &[&str] = &[
    "OS thread scheduling (baton engine decides every interleaving at atomic-operation granularity)",
    "clock (virtual, discrete-event)",
    "thread park/sleep/yield and blocking of parking_lot locks (engine wait-sets)",
];

const ASSUME_COMMON: &[&str] = &[
    "sequential consistency at atomic-operation granularity: weak-memory reorderings are not explored",
    "only atomics, AtomicOption, SegQueue, locks and blocking calls are schedule points (plus one point after each write-type atomic)",
    "seeded search, not exhaustive: a clean batch is evidence, not proof",
    "crossbeam, generator, parking_lot fast paths and the kernel are trusted",
];

pub fn props() -> Vec<Prop> {
    vec![Prop {
        id: "C01",
        scenarios: &[("c01", 1)],
        quick_runs: 30_000,
        thorough_runs: 600_000,
        quick_cap_s: 60.0,
        thorough_cap_s: 900.0,
        probes: &[],
        real: &["may scheduler, work-stealing queues, global queues, coroutine pool, join, park, sleep/timer thread, cancel, epoll+eventfd wake-up, generator context switch"],
        stub: STUB_COMMON,
        assumptions: ASSUME_COMMON,
    }, Prop {
        id: "C02",
        scenarios: &[("c02a", 1), ("c02b", 2)],
        quick_runs: 30_000,
        thorough_runs: 900_000,
        quick_cap_s: 60.0,
        thorough_cap_s: 900.0,
        probes: &[],
        real: &["may::coroutine::park/park_timeout/unpark (Park)", "may::sync::Blocker (Park and ThreadPark token loop)", "timer thread + timeout list", "cancel", "scheduler"],
        stub: STUB_COMMON,
        assumptions: ASSUME_COMMON,
    }, Prop {
        id: "C03",
        scenarios: &[("c03", 1)],
        quick_runs: 40_000,
        thorough_runs: 1_500_000,
        quick_cap_s: 60.0,
        thorough_cap_s: 900.0,
        probes: &[],
        real: &["may_queue::mpsc::Queue", "may_queue::spsc::Queue (inner_cache)", "may_queue::atomic wrappers"],
        stub: STUB_COMMON,
        assumptions: ASSUME_COMMON,
    }, Prop {
        id: "C05",
        scenarios: &[("c05", 1)],
        quick_runs: 30000,
        thorough_runs: 900000,
        quick_cap_s: 60.0,
        thorough_cap_s: 900.0,
        probes: &[],
        real: &["may::sync::Mutex (mpsc wait queue, SyncBlocker hand-off, poison flag)", "Park / ThreadPark", "cancel", "scheduler + timer thread"],
        stub: STUB_COMMON,
        assumptions: ASSUME_COMMON,
    }, Prop {
        id: "C10",
        scenarios: &[("c10s", 2), ("c10f", 1)],
        quick_runs: 30000,
        thorough_runs: 900000,
        quick_cap_s: 60.0,
        thorough_cap_s: 900.0,
        probes: &[],
        real: &["may::sync::Semphore", "may::sync::SyncFlag", "SyncBlocker (unparked/release handshake)", "Park / ThreadPark with timeouts", "cancel", "scheduler + timer thread"],
        stub: STUB_COMMON,
        assumptions: ASSUME_COMMON,
    }, Prop {
        id: "C11",
        scenarios: &[("c11c", 3), ("c11b", 1), ("c11w", 1)],
        quick_runs: 30000,
        thorough_runs: 900000,
        quick_cap_s: 60.0,
        thorough_cap_s: 900.0,
        probes: &[],
        real: &["may::sync::Condvar", "may::sync::Barrier", "may::sync::WaitGroup", "may::sync::Mutex", "SyncBlocker", "Park / ThreadPark with timeouts", "cancel", "scheduler + timer thread"],
        stub: STUB_COMMON,
        assumptions: ASSUME_COMMON,
    }, Prop {
        id: "C12",
        scenarios: &[("c12", 1)],
        quick_runs: 30000,
        thorough_runs: 900000,
        quick_cap_s: 60.0,
        thorough_cap_s: 900.0,
        probes: &[],
        real: &["may::sync::RwLock (global lock + reader mutex + poison flag)", "may::sync::Mutex", "SyncBlocker", "Park / ThreadPark", "cancel", "scheduler"],
        stub: STUB_COMMON,
        assumptions: ASSUME_COMMON,
    }]
}
