//! a minimal JSON reader/writer (no dependencies are available offline beyond the lock file)

use std::collections::BTreeMap;
use std::fmt::Write;

#[derive(Clone, Debug, PartialEq)]
pub enum J {
    Null,
    Bool(bool),
    Num(f64),
    Str(String),
    Arr(Vec<J>),
    Obj(BTreeMap<String, J>),
}

impl J {
    pub fn get(&self, k: &str) -> Option<&J> {
        match self {
            J::Obj(m) => m.get(k),
            _ => None,
        }
    }
    pub fn str(&self, k: &str) -> &str {
        match self.get(k) {
            Some(J::Str(s)) => s,
            _ => "",
        }
    }
    pub fn num(&self, k: &str) -> f64 {
        match self.get(k) {
            Some(J::Num(n)) => *n,
            _ => 0.0,
        }
    }
    pub fn u64(&self, k: &str) -> u64 {
        self.num(k) as u64
    }
    pub fn obj(&self, k: &str) -> Option<&BTreeMap<String, J>> {
        match self.get(k) {
            Some(J::Obj(m)) => Some(m),
            _ => None,
        }
    }
    pub fn arr(&self, k: &str) -> &[J] {
        match self.get(k) {
            Some(J::Arr(a)) => a,
            _ => &[],
        }
    }
    pub fn as_f64(&self) -> f64 {
        match self {
            J::Num(n) => *n,
            _ => 0.0,
        }
    }
    pub fn as_str(&self) -> &str {
        match self {
            J::Str(s) => s,
            _ => "",
        }
    }

    pub fn write(&self, out: &mut String) {
        match self {
            J::Null => out.push_str("null"),
            J::Bool(b) => out.push_str(if *b { "true" } else { "false" }),
            J::Num(n) => {
                if n.fract() == 0.0 && n.abs() < 9e15 {
                    let _ = write!(out, "{}", *n as i64);
                } else {
                    let _ = write!(out, "{}", n);
                }
            }
            J::Str(s) => out.push_str(&crate::engine::json_str(s)),
            J::Arr(a) => {
                out.push('[');
                for (i, v) in a.iter().enumerate() {
                    if i > 0 {
                        out.push(',');
                    }
                    v.write(out);
                }
                out.push(']');
            }
            J::Obj(m) => {
                out.push('{');
                for (i, (k, v)) in m.iter().enumerate() {
                    if i > 0 {
                        out.push(',');
                    }
                    out.push_str(&crate::engine::json_str(k));
                    out.push(':');
                    v.write(out);
                }
                out.push('}');
            }
        }
    }

    pub fn to_string(&self) -> String {
        let mut s = String::new();
        self.write(&mut s);
        s
    }
}

pub fn obj(pairs: Vec<(&str, J)>) -> J {
    J::Obj(pairs.into_iter().map(|(k, v)| (k.to_string(), v)).collect())
}

pub fn n<T: Into<f64>>(v: T) -> J {
    J::Num(v.into())
}

pub fn nu(v: u64) -> J {
    J::Num(v as f64)
}

pub fn s(v: &str) -> J {
    J::Str(v.to_string())
}

struct P<'a> {
    b: &'a [u8],
    i: usize,
}

impl<'a> P<'a> {
    fn ws(&mut self) {
        while self.i < self.b.len() && (self.b[self.i] as char).is_whitespace() {
            self.i += 1;
        }
    }
    fn val(&mut self) -> Result<J, String> {
        self.ws();
        if self.i >= self.b.len() {
            return Err("eof".into());
        }
        match self.b[self.i] {
            b'{' => {
                self.i += 1;
                let mut m = BTreeMap::new();
                loop {
                    self.ws();
                    if self.peek() == b'}' {
                        self.i += 1;
                        break;
                    }
                    let k = match self.val()? {
                        J::Str(s) => s,
                        _ => return Err("key".into()),
                    };
                    self.ws();
                    if self.peek() != b':' {
                        return Err("colon".into());
                    }
                    self.i += 1;
                    let v = self.val()?;
                    m.insert(k, v);
                    self.ws();
                    match self.peek() {
                        b',' => self.i += 1,
                        b'}' => {
                            self.i += 1;
                            break;
                        }
                        _ => return Err(format!("obj sep at {}", self.i)),
                    }
                }
                Ok(J::Obj(m))
            }
            b'[' => {
                self.i += 1;
                let mut a = Vec::new();
                loop {
                    self.ws();
                    if self.peek() == b']' {
                        self.i += 1;
                        break;
                    }
                    a.push(self.val()?);
                    self.ws();
                    match self.peek() {
                        b',' => self.i += 1,
                        b']' => {
                            self.i += 1;
                            break;
                        }
                        _ => return Err(format!("arr sep at {}", self.i)),
                    }
                }
                Ok(J::Arr(a))
            }
            b'"' => {
                self.i += 1;
                let mut s = Vec::new();
                while self.i < self.b.len() {
                    let c = self.b[self.i];
                    self.i += 1;
                    match c {
                        b'"' => return Ok(J::Str(String::from_utf8_lossy(&s).into_owned())),
                        b'\\' => {
                            let e = self.peek();
                            self.i += 1;
                            match e {
                                b'n' => s.push(b'\n'),
                                b't' => s.push(b'\t'),
                                b'r' => s.push(b'\r'),
                                b'u' => {
                                    let h = std::str::from_utf8(&self.b[self.i..self.i + 4]).unwrap_or("0");
                                    let cp = u32::from_str_radix(h, 16).unwrap_or(63);
                                    self.i += 4;
                                    let ch = char::from_u32(cp).unwrap_or('?');
                                    let mut buf = [0u8; 4];
                                    s.extend_from_slice(ch.encode_utf8(&mut buf).as_bytes());
                                }
                                other => s.push(other),
                            }
                        }
                        c => s.push(c),
                    }
                }
                Err("unterminated string".into())
            }
            b't' => {
                self.i += 4;
                Ok(J::Bool(true))
            }
            b'f' => {
                self.i += 5;
                Ok(J::Bool(false))
            }
            b'n' => {
                self.i += 4;
                Ok(J::Null)
            }
            _ => {
                let st = self.i;
                while self.i < self.b.len()
                    && matches!(self.b[self.i], b'0'..=b'9' | b'-' | b'+' | b'.' | b'e' | b'E')
                {
                    self.i += 1;
                }
                std::str::from_utf8(&self.b[st..self.i])
                    .ok()
                    .and_then(|t| t.parse::<f64>().ok())
                    .map(J::Num)
                    .ok_or_else(|| format!("bad number at {}", st))
            }
        }
    }
    fn peek(&self) -> u8 {
        if self.i < self.b.len() {
            self.b[self.i]
        } else {
            0
        }
    }
}

pub fn parse(s: &str) -> Result<J, String> {
    let mut p = P { b: s.as_bytes(), i: 0 };
    p.val()
}
