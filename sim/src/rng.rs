//! xoshiro256** seeded through splitmix64: the only source of randomness in a run

#[derive(Clone)]
pub struct Rng {
    s: [u64; 4],
}

fn splitmix(x: &mut u64) -> u64 {
    *x = x.wrapping_add(0x9E37_79B9_7F4A_7C15);
    let mut z = *x;
    z = (z ^ (z >> 30)).wrapping_mul(0xBF58_476D_1CE4_E5B9);
    z = (z ^ (z >> 27)).wrapping_mul(0x94D0_49BB_1331_11EB);
    z ^ (z >> 31)
}

impl Rng {
    pub fn new(seed: u64) -> Rng {
        let mut x = seed;
        let s = [
            splitmix(&mut x),
            splitmix(&mut x),
            splitmix(&mut x),
            splitmix(&mut x),
        ];
        Rng { s }
    }

    #[inline]
    pub fn next(&mut self) -> u64 {
        let r = self.s[1].wrapping_mul(5).rotate_left(7).wrapping_mul(9);
        let t = self.s[1] << 17;
        self.s[2] ^= self.s[0];
        self.s[3] ^= self.s[1];
        self.s[1] ^= self.s[2];
        self.s[0] ^= self.s[3];
        self.s[2] ^= t;
        self.s[3] = self.s[3].rotate_left(45);
        r
    }

    /// uniform in 0..n (n > 0)
    #[inline]
    pub fn below(&mut self, n: u64) -> u64 {
        debug_assert!(n > 0);
        // multiply-shift, bias is negligible for the small n used here
        ((self.next() as u128 * n as u128) >> 64) as u64
    }

    /// uniform in lo..=hi
    #[inline]
    pub fn range(&mut self, lo: u64, hi: u64) -> u64 {
        lo + self.below(hi - lo + 1)
    }

    #[inline]
    pub fn chance(&mut self, num: u64, den: u64) -> bool {
        self.below(den) < num
    }

    pub fn pick<'a, T>(&mut self, v: &'a [T]) -> &'a T {
        &v[self.below(v.len() as u64) as usize]
    }

    pub fn shuffle<T>(&mut self, v: &mut [T]) {
        for i in (1..v.len()).rev() {
            let j = self.below(i as u64 + 1) as usize;
            v.swap(i, j);
        }
    }
}
