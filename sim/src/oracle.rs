//! Oracles shared by the scenarios: canary payloads with a global drop table, a total
//! order of invoke/return stamps, the FIFO queue history checker.
//!
//! Nothing here is a schedule point (plain std atomics): the oracle does not perturb
//! the schedule space.

use crate::engine::violation;
use std::sync::atomic::{AtomicU64, AtomicU8, Ordering};
use std::sync::Mutex;

/// payload of a scripted panic
#[derive(Debug, Clone, Copy, PartialEq)]
pub struct Scripted(pub u32);

// ------------------------------------------------------------------------------------------------
// stamps
// ------------------------------------------------------------------------------------------------

static STAMP: AtomicU64 = AtomicU64::new(1);

/// a globally ordered event stamp; only one thread runs at a time, so the order of
/// stamps is the real order of the stamped events
#[inline]
pub fn stamp() -> u64 {
    STAMP.fetch_add(1, Ordering::Relaxed)
}

// ------------------------------------------------------------------------------------------------
// payload
// ------------------------------------------------------------------------------------------------

pub const MAX_TOK: usize = 4096;
const K: u32 = 0xA5C3_96E1;

#[allow(clippy::declare_interior_mutable_const)]
const Z: AtomicU8 = AtomicU8::new(0);
static TABLE: [AtomicU8; MAX_TOK] = [Z; MAX_TOK];

/// a value with an identity: a canary detects uninitialised or freed memory being
/// handed out as a value, the table detects double and missing drops
#[derive(Debug)]
pub struct Tok {
    id: u32,
    canary: u32,
    pad: [u32; 2],
}

impl Tok {
    pub fn new(id: u32) -> Tok {
        assert!((id as usize) < MAX_TOK);
        let old = TABLE[id as usize].swap(1, Ordering::Relaxed);
        if old != 0 {
            violation(&format!("harness: token {} created twice", id));
        }
        Tok {
            id,
            canary: id ^ K,
            pad: [0x5151_5151, id.wrapping_mul(31)],
        }
    }

    /// validate and return the id
    pub fn id(&self) -> u32 {
        self.check("read");
        self.id
    }

    fn check(&self, what: &str) {
        if self.canary != self.id ^ K
            || self.pad[0] != 0x5151_5151
            || self.pad[1] != self.id.wrapping_mul(31)
            || self.id as usize >= MAX_TOK
        {
            violation(&format!(
                "garbage value observed on {}: id={:#x} canary={:#x} (uninitialised or freed slot handed out)",
                what, self.id, self.canary
            ));
        }
        if TABLE[self.id as usize].load(Ordering::Relaxed) != 1 {
            violation(&format!(
                "value {} observed on {} but it is not live (state {}): duplicated or resurrected",
                self.id,
                what,
                TABLE[self.id as usize].load(Ordering::Relaxed)
            ));
        }
    }
}

impl Drop for Tok {
    fn drop(&mut self) {
        self.check("drop");
        let old = TABLE[self.id as usize].swap(2, Ordering::Relaxed);
        if old != 1 {
            violation(&format!("value {} dropped twice", self.id));
        }
    }
}

/// 0 never created, 1 live, 2 dropped
pub fn tok_state(id: u32) -> u8 {
    TABLE[id as usize].load(Ordering::Relaxed)
}

// ------------------------------------------------------------------------------------------------
// FIFO queue history (any number of producers, ONE consumer)
// ------------------------------------------------------------------------------------------------

#[derive(Clone, Debug)]
pub enum QEv {
    Push { id: u32, inv: u64, ret: u64 },
    /// a pop / bulk_pop by the consumer: ids in the order returned (empty = None)
    Pop { ids: Vec<u32>, inv: u64, ret: u64, bulk: bool },
    Peek { id: Option<u32>, inv: u64, ret: u64 },
    Len { n: usize, inv: u64, ret: u64, consumer: bool, is_empty_call: bool },
}

#[derive(Default)]
pub struct QHistory {
    pub ev: Mutex<Vec<QEv>>,
}

impl QHistory {
    pub fn new() -> QHistory {
        QHistory {
            ev: Mutex::new(Vec::new()),
        }
    }

    pub fn add(&self, e: QEv) {
        self.ev.lock().unwrap().push(e);
    }

    pub fn len(&self) -> usize {
        self.ev.lock().unwrap().len()
    }

    /// Check the history against a sequential FIFO queue. With one consumer whose
    /// operations are totally ordered this is exact: the history is linearizable iff
    /// none of the conditions below is violated.
    pub fn check(&self) -> Result<(), String> {
        let ev = self.ev.lock().unwrap();
        // push intervals
        let mut pushes: Vec<(u32, u64, u64)> = Vec::new();
        for e in ev.iter() {
            if let QEv::Push { id, inv, ret } = e {
                pushes.push((*id, *inv, *ret));
            }
        }
        let push_of = |id: u32| pushes.iter().find(|p| p.0 == id).copied();
        // consumer operations in order
        let mut cons: Vec<&QEv> = ev
            .iter()
            .filter(|e| match e {
                QEv::Pop { .. } | QEv::Peek { .. } => true,
                QEv::Len { consumer, .. } => *consumer,
                _ => false,
            })
            .collect();
        cons.sort_by_key(|e| match e {
            QEv::Pop { inv, .. } | QEv::Peek { inv, .. } | QEv::Len { inv, .. } => *inv,
            _ => 0,
        });
        let mut popped: Vec<(u32, u64, u64)> = Vec::new(); // id, inv, ret of the pop
        let mut pending_peek: Option<u32> = None;
        for e in cons {
            match e {
                QEv::Pop { ids, inv, ret, bulk } => {
                    if ids.is_empty() {
                        if let Some(p) = pending_peek {
                            return Err(format!(
                                "peek returned {} but the following pop found the queue empty",
                                p
                            ));
                        }
                        // the queue must have been possibly empty: no value whose push
                        // completed before this op started may still be inside
                        for p in &pushes {
                            if p.2 < *inv && !popped.iter().any(|q| q.0 == p.0) {
                                return Err(format!(
                                    "{} returned empty at [{},{}] although push({}) had returned at {} and the value was never popped before",
                                    if *bulk { "bulk_pop" } else { "pop" }, inv, ret, p.0, p.2
                                ));
                            }
                        }
                    }
                    for id in ids {
                        let p = match push_of(*id) {
                            Some(p) => p,
                            None => return Err(format!("popped value {} was never pushed", id)),
                        };
                        if p.1 > *ret {
                            return Err(format!("value {} popped before its push was invoked", id));
                        }
                        if popped.iter().any(|q| q.0 == *id) {
                            return Err(format!("value {} popped twice", id));
                        }
                        if let Some(pk) = pending_peek.take() {
                            if pk != *id {
                                return Err(format!(
                                    "peek returned {} but the next pop returned {}",
                                    pk, id
                                ));
                            }
                        }
                        // FIFO: everything whose push returned before this push was
                        // invoked must already be out
                        for b in &pushes {
                            if b.2 < p.1 && b.0 != *id && !popped.iter().any(|q| q.0 == b.0) {
                                return Err(format!(
                                    "FIFO violated: {} popped while {} (push returned at {} < push({}) invoked at {}) is still inside",
                                    id, b.0, b.2, id, p.1
                                ));
                            }
                        }
                        popped.push((*id, *inv, *ret));
                    }
                }
                QEv::Peek { id, inv, ret } => match id {
                    None => {
                        for p in &pushes {
                            if p.2 < *inv && !popped.iter().any(|q| q.0 == p.0) {
                                return Err(format!(
                                    "peek returned None at [{},{}] although push({}) had returned at {}",
                                    inv, ret, p.0, p.2
                                ));
                            }
                        }
                    }
                    Some(v) => {
                        if push_of(*v).is_none() {
                            return Err(format!("peeked value {} was never pushed", v));
                        }
                        if popped.iter().any(|q| q.0 == *v) {
                            return Err(format!("peek returned {} which was already popped", v));
                        }
                        pending_peek = Some(*v);
                    }
                },
                QEv::Len { n, inv, ret, is_empty_call, .. } => {
                    let c = popped.len() as i64;
                    let lo = pushes.iter().filter(|p| p.2 < *inv).count() as i64 - c;
                    let hi = pushes.iter().filter(|p| p.1 < *ret).count() as i64 - c;
                    check_len(*n, lo, hi, *is_empty_call, *inv, *ret)?;
                }
                _ => {}
            }
        }
        // len / is_empty by producers: bounds with the pops that may have happened
        for e in ev.iter() {
            if let QEv::Len { n, inv, ret, consumer: false, is_empty_call } = e {
                let pops_maybe = popped.iter().filter(|q| q.1 < *ret).count() as i64;
                let pops_sure = popped.iter().filter(|q| q.2 < *inv).count() as i64;
                let lo = pushes.iter().filter(|p| p.2 < *inv).count() as i64 - pops_maybe;
                let hi = pushes.iter().filter(|p| p.1 < *ret).count() as i64 - pops_sure;
                check_len(*n, lo, hi, *is_empty_call, *inv, *ret)?;
            }
        }
        Ok(())
    }

    pub fn popped_ids(&self) -> Vec<u32> {
        let ev = self.ev.lock().unwrap();
        let mut v = Vec::new();
        for e in ev.iter() {
            if let QEv::Pop { ids, .. } = e {
                v.extend(ids.iter().copied());
            }
        }
        v
    }
}

fn check_len(n: usize, lo: i64, hi: i64, is_empty_call: bool, inv: u64, ret: u64) -> Result<(), String> {
    let lo = lo.max(0);
    if is_empty_call {
        // n == 0 encodes "is_empty() returned true"
        if n == 0 && lo > 0 {
            return Err(format!(
                "is_empty() returned true at [{},{}] but at least {} values were inside during the whole call",
                inv, ret, lo
            ));
        }
        if n != 0 && hi <= 0 {
            return Err(format!(
                "is_empty() returned false at [{},{}] but the queue was empty during the whole call",
                inv, ret
            ));
        }
        return Ok(());
    }
    if (n as i64) < lo || (n as i64) > hi {
        return Err(format!(
            "len() returned {} at [{},{}], possible range {}..={}",
            n, inv, ret, lo, hi
        ));
    }
    Ok(())
}
