//! C02 — park/unpark never loses a wake-up; a fresh Blocker reports Timeout only at or
//! after its deadline and Canceled only for a cancelled coroutine

use crate::engine::{self, violation};
use crate::rng::Rng;
use crate::rt::{self, Actor, Ctx, RtCfg, OPS};
use crate::{gen_rng, swarm_cfg, Swarm};
use may::coroutine::{self, ParkError};
use may::sync::Blocker;
use std::sync::atomic::{AtomicBool, AtomicU32, AtomicU64, Ordering};
use std::sync::{Arc, Mutex};
use std::time::Duration;

pub fn swarm() -> Swarm {
    Swarm {
        alloc_modes: true,
        stalls: true,
        stall_max_ns: 3_000_000,
        // a worker held up inside Park::subscribe / unpark while the parker is already a round further
        stall_focus: &["src/park.rs", "src/sync/blocking.rs"],
        spurious_park: true,
        est_len: 3000,
        max_steps: 400_000,
        ..Default::default()
    }
}

// ------------------------------------------------------------------------------------------------
// program A: coroutine::park / park_timeout token semantics, pure liveness
// ------------------------------------------------------------------------------------------------

#[derive(Debug)]
struct ParamsA {
    rt: RtCfg,
    rounds: usize,
    /// per round: (park_timeout duration in ns, 0 = plain park; unparker context; dally before
    /// unpark; extra unparks; virtual delay of the unparker). A short timeout that is beaten by
    /// the unpark leaves its timer armed: it fires into a later round
    round: Vec<(u64, Ctx, u32, u32, u64)>,
}

fn gen_a(seed: u64) -> ParamsA {
    let mut r = gen_rng(seed);
    let rt = RtCfg::gen(&mut r, 3);
    let rounds = r.range(1, 4) as usize;
    let round: Vec<(u64, Ctx, u32, u32, u64)> = (0..rounds)
        .map(|_| {
            let timeout = match r.below(6) {
                0 | 1 => 3_600_000_000_000u64,
                2 => *r.pick(&[1_000_000u64, 2_000_000]),
                _ => 0,
            };
            let delay = if r.chance(1, 3) { *r.pick(&[990_000u64, 1_000_000, 1_010_000, 2_000_000]) } else { 0 };
            (timeout, Ctx::gen(&mut r), r.below(12) as u32, if r.chance(1, 5) { 1 } else { 0 }, delay)
        })
        .collect();
    let mut round: Vec<(u64, Ctx, u32, u32, u64)> = round;
    if r.chance(1, 4) && rounds >= 2 {
        // aimed sequence: a short timed park beaten by its unpark (the timer stays armed), then a
        // plain park whose unpark arrives just when that stale timer fires
        let d = *r.pick(&[1_000_000u64, 2_000_000]);
        round[0] = (d, Ctx::gen(&mut r), r.below(4) as u32, 0, 0);
        let back = *r.pick(&[0u64, 0, 1_000, 3_000, 10_000, 30_000]);
        round[1] = (0, Ctx::gen(&mut r), r.below(6) as u32, 0, d - back);
    }
    ParamsA { rt, rounds, round }
}

pub fn run_a(seed: u64, mut ov: impl FnMut(&mut engine::Cfg)) -> ! {
    let p = gen_a(seed);
    let mut cfg = swarm_cfg(seed, &swarm());
    ov(&mut cfg);
    engine::init(cfg);
    engine::set_extra("params", engine::json_str(&format!("{:?}", p)));
    rt::boot(&p.rt);
    engine::set_diag(|| format!("in flight: {}", OPS.pending()));

    // STARTED[i] is set by the parker right before it calls park for round i, i.e. after
    // the previous park has returned: the premise of the property for round i's unpark
    let started: Arc<Vec<AtomicBool>> = Arc::new((0..p.rounds).map(|_| AtomicBool::new(false)).collect());
    let handle: Arc<Mutex<Option<coroutine::Coroutine>>> = Arc::new(Mutex::new(None));
    let rounds_done = Arc::new(AtomicU32::new(0));
    let mut actors: Vec<Actor> = Vec::new();
    {
        let started = started.clone();
        let handle = handle.clone();
        let rounds_done = rounds_done.clone();
        let spec: Vec<u64> = p.round.iter().map(|r| r.0).collect();
        actors.push(rt::spawn_actor(Ctx::Co, "parker", move || {
            *handle.lock().unwrap() = Some(coroutine::current());
            for (i, timed) in spec.iter().enumerate() {
                let op = OPS.begin(format!("park round {}", i));
                rt::set_flag(&started[i]);
                if *timed != 0 {
                    coroutine::park_timeout(Duration::from_nanos(*timed));
                } else {
                    coroutine::park();
                }
                op.done();
                rounds_done.fetch_add(1, Ordering::Relaxed);
            }
        }));
    }
    for (i, (_, ctx, dally, extra, delay)) in p.round.iter().cloned().enumerate() {
        let started = started.clone();
        let handle = handle.clone();
        actors.push(rt::spawn_actor(ctx, &format!("unparker{}", i), move || {
            // wait until the parker is at (or past) round i; in coroutine context this is
            // a bounded yield loop, if it gives up the round's unpark is simply late
            loop {
                if rt::wait_flag(&started[i], 2000) {
                    break;
                }
            }
            if delay > 0 {
                rt::nap(delay);
            }
            rt::dally(dally);
            let co = handle.lock().unwrap().clone().expect("handle published");
            for _ in 0..=extra {
                co.unpark();
            }
        }));
    }
    let deadline = engine::now() + 200_000_000;
    engine::set_vt_limit(deadline + 1_000_000);
    rt::await_actors(&actors, deadline);
    if rounds_done.load(Ordering::Relaxed) != p.rounds as u32 {
        violation("parker finished without doing all its rounds");
    }
    engine::finish_ok()
}

// ------------------------------------------------------------------------------------------------
// program B: a fresh Blocker, exact result semantics
// ------------------------------------------------------------------------------------------------

#[derive(Debug, Clone)]
struct WaiterB {
    ctx: Ctx,
    timeout_ns: Option<u64>,
    /// 0 never, 1 unpark after `dally` yields
    unpark: bool,
    unparker_ctx: Ctx,
    dally: u32,
    /// unparker sleeps this long (virtual) before unparking, 0 = none
    unpark_delay_ns: u64,
    cancel_after: Option<u32>,
}

#[derive(Debug)]
struct ParamsB {
    rt: RtCfg,
    waiters: Vec<WaiterB>,
}

const DURS: [u64; 8] = [0, 1_000, 500_000, 999_000, 1_000_000, 1_500_000, 2_000_001, 10_000_000];

fn gen_b(seed: u64) -> ParamsB {
    let mut r = gen_rng(seed);
    let rt = RtCfg::gen(&mut r, 3);
    let n = r.range(1, 3) as usize;
    let waiters = (0..n)
        .map(|_| {
            let ctx = Ctx::gen(&mut r);
            let timeout_ns = if r.chance(2, 3) { Some(*r.pick(&DURS)) } else { None };
            // without a timeout somebody must wake the waiter
            let cancel_after = if ctx == Ctx::Co && r.chance(1, 4) { Some(r.below(30) as u32) } else { None };
            let unpark = timeout_ns.is_none() && cancel_after.is_none() || r.chance(1, 2);
            WaiterB {
                ctx,
                timeout_ns,
                unpark,
                unparker_ctx: Ctx::gen(&mut r),
                dally: r.below(20) as u32,
                unpark_delay_ns: if r.chance(1, 3) { *r.pick(&[500_000u64, 1_000_000, 1_500_000, 2_000_000]) } else { 0 },
                cancel_after,
            }
        })
        .collect();
    ParamsB { rt, waiters }
}

struct SlotB {
    blocker: Mutex<Option<Arc<Blocker>>>,
    published: AtomicBool,
    /// stamps (virtual time) of the first unpark invocation / return, u64::MAX = none
    unpark_inv_vt: AtomicU64,
    unpark_ret_vt: AtomicU64,
    cancel_inv: AtomicBool,
}

pub fn run_b(seed: u64, mut ov: impl FnMut(&mut engine::Cfg)) -> ! {
    let p = gen_b(seed);
    let mut cfg = swarm_cfg(seed, &swarm());
    ov(&mut cfg);
    engine::init(cfg);
    engine::set_extra("params", engine::json_str(&format!("{:?}", p)));
    rt::boot(&p.rt);
    engine::set_diag(|| format!("in flight: {}", OPS.pending()));

    let mut actors: Vec<Actor> = Vec::new();
    let mut cancels: Vec<(u32, usize, Arc<SlotB>)> = Vec::new();
    let mut waiter_idx: Vec<usize> = Vec::new();
    for (wi, w) in p.waiters.iter().cloned().enumerate() {
        let slot = Arc::new(SlotB {
            blocker: Mutex::new(None),
            published: AtomicBool::new(false),
            unpark_inv_vt: AtomicU64::new(u64::MAX),
            unpark_ret_vt: AtomicU64::new(u64::MAX),
            cancel_inv: AtomicBool::new(false),
        });
        {
            let slot = slot.clone();
            let w = w.clone();
            waiter_idx.push(actors.len());
            actors.push(rt::spawn_actor(w.ctx, &format!("waiter{}", wi), move || {
                let b = Blocker::current();
                *slot.blocker.lock().unwrap() = Some(b.clone());
                rt::set_flag(&slot.published);
                let op = OPS.begin(format!("waiter{} Blocker::park({:?})", wi, w.timeout_ns));
                let t0 = engine::now();
                let r = b.park(w.timeout_ns.map(Duration::from_nanos));
                let t1 = engine::now();
                op.done();
                match r {
                    Ok(()) => {
                        if slot.unpark_inv_vt.load(Ordering::Relaxed) == u64::MAX {
                            violation(&format!(
                                "waiter{}: Blocker::park({:?}) returned Ok although unpark was never called",
                                wi, w.timeout_ns
                            ));
                        }
                    }
                    Err(ParkError::Timeout) => {
                        let d = match w.timeout_ns {
                            Some(d) => d,
                            None => violation(&format!("waiter{}: park(None) reported Timeout", wi)),
                        };
                        if t1 < t0 + d {
                            violation(&format!(
                                "waiter{}: Blocker::park({} ns) reported Timeout after only {} ns",
                                wi, d, t1 - t0
                            ));
                        }
                        let ur = slot.unpark_ret_vt.load(Ordering::Relaxed);
                        // An unpark that returned before the deadline must win - unless the parker
                        // itself was held up past its deadline (a stall inside park: by then both
                        // "unparked" and "deadline passed" are true and Timeout is a legitimate
                        // answer, "at or after its deadline"). So: exact in undisturbed runs; in
                        // runs with stalls only an unpark that returned before park was even
                        // called (the token is there, park must not look at the clock at all)
                        let limit = if engine::quiet() { t0 + d } else { t0 };
                        if ur != u64::MAX && ur < limit {
                            violation(&format!(
                                "waiter{}: Blocker::park({} ns) called at {} reported Timeout although an unpark had returned at {} (before the deadline): lost wake-up",
                                wi, d, t0, ur
                            ));
                        }
                    }
                    Err(ParkError::Canceled) => {
                        if !slot.cancel_inv.load(Ordering::Relaxed) {
                            violation(&format!("waiter{}: park reported Canceled but the coroutine was never cancelled", wi));
                        }
                        // the primitives propagate the cancellation themselves
                        coroutine::trigger_cancel_panic();
                    }
                }
            }));
        }
        if w.unpark {
            let slot = slot.clone();
            let w2 = w.clone();
            actors.push(rt::spawn_actor(w.unparker_ctx, &format!("unparker{}", wi), move || {
                loop {
                    if rt::wait_flag(&slot.published, 2000) {
                        break;
                    }
                }
                rt::dally(w2.dally);
                if w2.unpark_delay_ns > 0 {
                    if coroutine::is_coroutine() {
                        coroutine::sleep(Duration::from_nanos(w2.unpark_delay_ns));
                    } else {
                        engine::sleep(w2.unpark_delay_ns);
                    }
                }
                let b = slot.blocker.lock().unwrap().clone().unwrap();
                slot.unpark_inv_vt.fetch_min(engine::now(), Ordering::Relaxed);
                b.unpark();
                slot.unpark_ret_vt.fetch_min(engine::now(), Ordering::Relaxed);
            }));
        }
        if let Some(k) = w.cancel_after {
            cancels.push((k, wi, slot.clone()));
        }
    }
    // the controller issues cancels
    if !cancels.is_empty() {
        let hs: Vec<(u32, coroutine::Coroutine, Arc<SlotB>)> = cancels
            .into_iter()
            .map(|(k, wi, s)| (k, actors[waiter_idx[wi]].co.as_ref().unwrap().coroutine().clone(), s))
            .collect();
        actors.push(rt::spawn_actor(Ctx::Thread, "ctl", move || {
            let mut v = hs;
            v.sort_by_key(|c| c.0);
            let mut k = 0;
            for (at, co, slot) in v {
                while k < at {
                    engine::yield_point();
                    k += 1;
                }
                slot.cancel_inv.store(true, Ordering::Relaxed);
                unsafe { co.cancel() };
            }
        }));
    }
    let deadline = engine::now() + 100_000_000;
    engine::set_vt_limit(deadline + 1_000_000);
    rt::await_actors(&actors, deadline);
    // outcome of cancelled waiters: Cancel or a normal end, never anything else
    for (wi, w) in p.waiters.iter().enumerate() {
        let a = &mut actors[waiter_idx[wi]];
        if let Some(h) = a.co.take() {
            match h.join() {
                Ok(()) => {}
                Err(e) => {
                    let is_cancel = matches!(e.downcast_ref::<generator::Error>(), Some(generator::Error::Cancel));
                    if !(is_cancel && w.cancel_after.is_some()) {
                        violation(&format!("waiter{} ended with an unexpected panic: {}", wi, crate::panic_msg(&e)));
                    }
                }
            }
        }
    }
    engine::finish_ok()
}

#[allow(dead_code)]
fn _unused(_: &mut Rng) {}
