//! scenario families, one per property

pub mod c01;
pub mod c02;
pub mod c03;
pub mod c04;
pub mod c05;
pub mod c06;
pub mod c08;
pub mod c09;
pub mod c10;
pub mod c11;
pub mod c12;
pub mod c13;
pub mod c14;
pub mod c15;
pub mod c16;
pub mod c17;
pub mod c18;
pub mod c19;

use crate::engine::Cfg;

pub const SCENARIOS: &[&str] = &["c01", "c01g", "c02a", "c02b", "c03", "c04a", "c04b", "c04c", "c04d", "c05", "c06mpsc", "c06spsc", "c06mpmc", "c08", "c08a", "c08m", "c09", "c09s", "c10s", "c10f", "c11c", "c11b", "c11v", "c11w", "c12", "c13", "c13d", "c13u", "c14s", "c14sel", "c15", "c16q", "c16sel", "c17s", "c17d", "c18t", "c18c", "c19v1", "c19plain", "c19wake"];

pub fn run(name: &str, seed: u64, ov: impl FnMut(&mut Cfg)) -> ! {
    match name {
        "c01" => c01::run(seed, ov),
        "c01g" => c01::run_handoff(seed, ov),
        "c02a" => c02::run_a(seed, ov),
        "c02b" => c02::run_b(seed, ov),
        "c03" => c03::run(seed, ov),
        "c04a" => c04::run_a(seed, ov),
        "c04b" => c04::run_b(seed, ov),
        "c04c" => c04::run_c(seed, ov),
        "c04d" => c04::run_d(seed, ov),
        "c05" => c05::run(seed, ov),
        "c06mpsc" => c06::run(seed, Some(c06::Flavor::Mpsc), ov),
        "c06spsc" => c06::run(seed, Some(c06::Flavor::Spsc), ov),
        "c06mpmc" => c06::run(seed, Some(c06::Flavor::Mpmc), ov),
        "c08" => c08::run(seed, ov),
        "c08a" => c08::run_aimed(seed, ov),
        "c08m" => c08::run_many(seed, ov),
        "c09" => c09::run(seed, ov),
        "c09s" => c09::run_spsc_aimed(seed, ov),
        "c10s" => c10::run_sem(seed, ov),
        "c10f" => c10::run_flag(seed, ov),
        "c11c" => c11::run_condvar(seed, ov),
        "c11b" => c11::run_barrier(seed, ov),
        "c11v" => c11::run_barrier_victims(seed, ov),
        "c11w" => c11::run_waitgroup(seed, ov),
        "c12" => c12::run(seed, ov),
        "c13" => c13::run(seed, ov),
        "c13d" => c13::run_detached(seed, ov),
        "c13u" => c13::run_unwind(seed, ov),
        "c14s" => c14::run_scope(seed, ov),
        "c14sel" => c14::run_select(seed, ov),
        "c15" => c15::run(seed, ov),
        "c16q" => c16::run_cqueue(seed, ov),
        "c16sel" => c16::run_select(seed, ov),
        "c17s" => c17::run_stream(seed, ov),
        "c17d" => c17::run_dgram(seed, ov),
        "c18t" => c18::run_timeout(seed, ov),
        "c18c" => c18::run_cancel(seed, ov),
        "c19v1" => c19::run_v1(seed, ov),
        "c19plain" => c19::run_plain(seed, ov),
        "c19wake" => c19::run_wake(seed, ov),
        _ => {
            eprintln!("unknown scenario {}", name);
            std::process::exit(2);
        }
    }
}
