//! C09 — cancellation stops the target at its blocking call, cleans up, corrupts nothing:
//! one target blocked in one of the cancellable calls, bystanders on the same primitive,
//! the awaited event released at a random moment around the cancel

use crate::engine::{self, violation};
use crate::oracle::{tok_state, Tok};
use crate::rt::{self, Actor, Ctx, RtCfg, OPS};
use crate::{gen_rng, swarm_cfg, Swarm};
use may::coroutine;
use may::sync::{mpmc, mpsc, Condvar, Mutex, RwLock, Semphore, SyncFlag};
use std::sync::atomic::{AtomicBool, AtomicI64, AtomicU32, Ordering};
use std::sync::Arc;
use std::time::Duration;

pub fn swarm() -> Swarm {
    Swarm {
        alloc_modes: true,
        stalls: true,
        stall_max_ns: 2_000_000,
        // a worker held up inside a registration (subscribe) while the coroutine is already
        // resumed elsewhere and the cancel lands
        stall_focus: &["src/park.rs", "src/sync/spsc.rs", "src/cancel.rs", "src/sleep.rs"],
        est_len: 5000,
        max_steps: 700_000,
        ..Default::default()
    }
}

#[derive(Debug, Clone, Copy, PartialEq)]
enum Kind {
    Park,
    Sleep,
    MutexLock,
    SemWait,
    CondWait,
    RwRead,
    RwWrite,
    FlagWait,
    MpscRecv,
    MpmcRecv,
    Join,
    Select,
    /// the single-receiver channel (may::sync::spsc): its own park, not registered with the cancel
    /// data - a cancel takes effect when the receiver enters recv or is woken by a send
    SpscRecv,
}

const KINDS: [Kind; 13] = [
    Kind::Park,
    Kind::Sleep,
    Kind::MutexLock,
    Kind::SemWait,
    Kind::CondWait,
    Kind::RwRead,
    Kind::RwWrite,
    Kind::FlagWait,
    Kind::MpscRecv,
    Kind::SpscRecv,
    Kind::MpmcRecv,
    Kind::Join,
    Kind::Select,
];

#[derive(Debug)]
struct Params {
    rt: RtCfg,
    kind: Kind,
    bystanders: Vec<Ctx>,
    cancel_after: u32,
    release_dally: u32,
    release_delay: u64,
    hold_other_lock: bool,
    owned: usize,
    pre_yields: u32,
    /// the awaited event never comes: the cancel is the only way out of the blocking call
    never_release: bool,
    /// the releaser issues the cancel itself right before (true) / right after (false) the event
    adjacent: Option<bool>,
    /// one of the values on the target's stack yields in its destructor (user code may do that):
    /// the cancelled coroutine passes through a yield while the cancel unwinds it
    yield_in_drop: bool,
    /// the target is cancelled a second time, this many controller steps after the first cancel
    /// (it is then unwinding, cleaning up, or gone): a cancel must be harmless at any moment
    second_cancel: Option<u32>,
}

fn gen(seed: u64) -> Params {
    let mut r = gen_rng(seed);
    let rt = RtCfg::gen(&mut r, 3);
    let nb = r.range(0, 2) as usize;
    let p = Params {
        rt,
        kind: *r.pick(&KINDS),
        bystanders: (0..nb).map(|_| Ctx::gen(&mut r)).collect(),
        cancel_after: r.below(70) as u32,
        release_dally: r.below(40) as u32,
        release_delay: *r.pick(&[0u64, 0, 300_000, 1_000_000]),
        hold_other_lock: r.chance(1, 2),
        owned: r.range(1, 3) as usize,
        pre_yields: r.below(3) as u32,
        never_release: r.chance(1, 4),
        adjacent: if r.chance(1, 3) { Some(r.chance(2, 3)) } else { None },
        yield_in_drop: false,
        second_cancel: None,
    };
    // drawn last: everything above is the same as before this field existed
    let mut p = p;
    if r.chance(1, 5) {
        p.yield_in_drop = true;
        // std counts panics per OS thread: a coroutine that yields while it unwinds and comes
        // back on another worker would leave both workers with a wrong count for good (nothing
        // may claims anything about that). One worker: the count is right again as soon as the
        // unwinding is over
        p.rt.workers = 1;
    }
    if r.chance(1, 4) {
        p.second_cancel = Some(r.below(50) as u32);
    }
    p
}

struct World {
    m: Mutex<u64>,
    m_occ: AtomicU32,
    sem: Semphore,
    posts: AtomicI64,
    succ: AtomicI64,
    cv_pair: (Mutex<u32>, Condvar),
    rw: RwLock<u64>,
    flag: SyncFlag,
    mpmc_rx: mpmc::Receiver<u32>,
    held: Mutex<u32>,
    cancel_issued: AtomicBool,
}

fn observe_cancel(who: &str, w: &World, is_target: bool) {
    if !is_target || !w.cancel_issued.load(Ordering::Relaxed) {
        violation(&format!("{} observed a cancellation although it was never cancelled", who));
    }
}

/// the blocking operation under test, executed by the target and (for shared primitives) by
/// the bystanders
enum Rx {
    Mpsc(mpsc::Receiver<u32>),
    Spsc(may::sync::spsc::Receiver<u32>),
}
enum Tx {
    Mpsc(mpsc::Sender<u32>),
    Spsc(may::sync::spsc::Sender<u32>),
}
impl Rx {
    fn recv(&self) {
        match self {
            Rx::Mpsc(r) => {
                let _ = r.recv();
            }
            Rx::Spsc(r) => {
                let _ = r.recv();
            }
        }
    }
}
impl Tx {
    fn send(&self, v: u32) {
        match self {
            Tx::Mpsc(t) => {
                let _ = t.send(v);
            }
            Tx::Spsc(t) => {
                let _ = t.send(v);
            }
        }
    }
}

fn blocking_op(kind: Kind, w: &Arc<World>, who: &str, mpsc_rx: Option<&Rx>, join_me: Option<coroutine::JoinHandle<u32>>) {
    match kind {
        Kind::Park => coroutine::park(),
        Kind::Sleep => coroutine::sleep(Duration::from_millis(2)),
        Kind::MutexLock => {
            let mut g = w.m.lock().unwrap_or_else(|_| violation(&format!("{}: mutex poisoned", who)));
            if w.m_occ.fetch_add(1, Ordering::Relaxed) != 0 {
                violation(&format!("{}: mutual exclusion broken after a cancellation raced with the hand-off", who));
            }
            *g += 1;
            engine::point();
            w.m_occ.fetch_sub(1, Ordering::Relaxed);
        }
        Kind::SemWait => {
            w.sem.wait();
            w.succ.fetch_add(1, Ordering::Relaxed);
        }
        Kind::CondWait => {
            let (m, cv) = (&w.cv_pair.0, &w.cv_pair.1);
            let mut g = m.lock().unwrap_or_else(|_| violation(&format!("{}: condvar mutex poisoned", who)));
            while *g == 0 {
                g = cv.wait(g).unwrap_or_else(|_| violation(&format!("{}: condvar mutex poisoned", who)));
            }
            *g -= 1;
        }
        Kind::RwRead => {
            let g = w.rw.read().unwrap_or_else(|_| violation(&format!("{}: rwlock poisoned", who)));
            let v = *g;
            engine::point();
            if *g != v {
                violation(&format!("{}: data changed under a read guard", who));
            }
        }
        Kind::RwWrite => {
            let mut g = w.rw.write().unwrap_or_else(|_| violation(&format!("{}: rwlock poisoned", who)));
            let v = *g;
            engine::point();
            *g = v + 1;
        }
        Kind::FlagWait => w.flag.wait(),
        Kind::MpscRecv | Kind::SpscRecv => mpsc_rx.expect("receiver").recv(),
        Kind::MpmcRecv => {
            let _ = w.mpmc_rx.recv();
        }
        Kind::Join => {
            if let Some(h) = join_me {
                match h.join() {
                    Ok(77) => {}
                    Ok(v) => violation(&format!("{}: join returned {}", who, v)),
                    Err(_) => violation(&format!("{}: join of a normal coroutine reported an error", who)),
                }
            }
        }
        Kind::Select => {
            let rx = &w.mpmc_rx;
            let t = may::select!(
                _ = rx.recv() => {},
                _ = coroutine::sleep(Duration::from_millis(50)) => {}
            );
            if t > 1 {
                violation(&format!("{}: select! returned token {}", who, t));
            }
        }
    }
}

pub fn run(seed: u64, mut ov: impl FnMut(&mut engine::Cfg)) -> ! {
    let p = gen(seed);
    let mut cfg = swarm_cfg(seed, &swarm());
    ov(&mut cfg);
    engine::init(cfg);
    engine::set_extra("params", engine::json_str(&format!("{:?}", p)));
    rt::boot(&p.rt);
    engine::set_diag(|| format!("in flight: {}", OPS.pending()));
    engine::set_vt_limit(engine::now() + 200_000_000);

    let (mpmc_tx, mpmc_rx) = mpmc::channel::<u32>();
    let (mpsc_tx, mpsc_rx) = if p.kind == Kind::SpscRecv {
        let (t, r) = may::sync::spsc::channel::<u32>();
        (Tx::Spsc(t), Rx::Spsc(r))
    } else {
        let (t, r) = mpsc::channel::<u32>();
        (Tx::Mpsc(t), Rx::Mpsc(r))
    };
    let w = Arc::new(World {
        m: Mutex::new(0),
        m_occ: AtomicU32::new(0),
        sem: Semphore::new(0),
        posts: AtomicI64::new(0),
        succ: AtomicI64::new(0),
        cv_pair: (Mutex::new(0), Condvar::new()),
        rw: RwLock::new(0),
        flag: SyncFlag::new(),
        mpmc_rx,
        held: Mutex::new(0),
        cancel_issued: AtomicBool::new(false),
    });
    let kind = p.kind;
    // who else uses the primitive: kinds that are private to the target have no bystanders
    let shared = !matches!(kind, Kind::Park | Kind::Sleep | Kind::MpscRecv | Kind::SpscRecv | Kind::Join);
    let never = p.never_release && matches!(kind, Kind::Park | Kind::SemWait | Kind::CondWait | Kind::FlagWait | Kind::MpscRecv | Kind::MpmcRecv)
        // (a receiver blocked in spsc recv is only reached by the cancel when a send wakes it)
        && kind != Kind::SpscRecv;
    let n_by = if shared && !never { p.bystanders.len() } else { 0 };
    // a blocker that keeps the lock kinds busy until the release
    let gate_held = Arc::new(AtomicBool::new(false));
    let release_now = Arc::new(AtomicBool::new(false));
    let mut actors: Vec<Actor> = Vec::new();
    if matches!(kind, Kind::MutexLock | Kind::RwRead | Kind::RwWrite) {
        let (w2, gh, rn) = (w.clone(), gate_held.clone(), release_now.clone());
        actors.push(rt::spawn_actor(Ctx::Thread, "holder", move || {
            if kind == Kind::MutexLock {
                let _g = w2.m.lock().unwrap();
                rt::set_flag(&gh);
                rt::wait_flag(&rn, 0);
            } else {
                let _g = w2.rw.write().unwrap();
                rt::set_flag(&gh);
                rt::wait_flag(&rn, 0);
            }
        }));
        rt::wait_flag(&gate_held, 0);
    }
    // the coroutine the target joins (Kind::Join)
    let joinee = if kind == Kind::Join {
        let rn = release_now.clone();
        Some(unsafe {
            coroutine::spawn(move || {
                loop {
                    if rt::wait_flag(&rn, 50) {
                        break;
                    }
                }
                77u32
            })
        })
    } else {
        None
    };
    // ---- the target
    let owned_ids: Vec<u32> = (0..p.owned as u32).collect();
    let target_reached_end = Arc::new(AtomicBool::new(false));
    let target = {
        let (w2, ids, hold, pre, tre) = (w.clone(), owned_ids.clone(), p.hold_other_lock, p.pre_yields, target_reached_end.clone());
        let yid = p.yield_in_drop;
        let mut joinee = joinee;
        let mut rx = Some(mpsc_rx);
        rt::spawn_actor(Ctx::Co, "target", move || {
            // values owned by the target's stack, and a lock it holds while it blocks
            let _owned: Vec<Tok> = ids.iter().map(|i| Tok::new(*i)).collect();
            struct YieldOnDrop(bool);
            impl Drop for YieldOnDrop {
                fn drop(&mut self) {
                    // only on the way out by a panic: on the normal way out it would be one
                    // more cancellation point behind the target's "reached my end" mark
                    if self.0 && std::thread::panicking() {
                        coroutine::yield_now();
                    }
                }
            }
            let _y = YieldOnDrop(yid);
            let _guard = if hold { Some(w2.held.lock().unwrap()) } else { None };
            for _ in 0..pre {
                coroutine::yield_now();
            }
            let o = OPS.begin(format!("target blocked in {:?}", kind));
            let rxo = rx.take();
            blocking_op(kind, &w2, "target", rxo.as_ref(), joinee.take());
            o.done();
            tre.store(true, Ordering::Relaxed);
        })
    };
    // ---- bystanders on the same primitive
    for (bi, ctx) in p.bystanders.iter().cloned().enumerate().take(n_by) {
        // select! needs a coroutine... it works from threads too
        let w2 = w.clone();
        let name = format!("bystander{}", bi);
        let nm = name.clone();
        actors.push(rt::spawn_actor(ctx, &name, move || {
            let o = OPS.begin(format!("{} in {:?}", nm, kind));
            let r = std::panic::catch_unwind(std::panic::AssertUnwindSafe(|| blocking_op(kind, &w2, &nm, None, None)));
            o.done();
            if let Err(e) = r {
                if matches!(e.downcast_ref::<generator::Error>(), Some(generator::Error::Cancel)) {
                    observe_cancel(&nm, &w2, false);
                }
                std::panic::resume_unwind(e);
            }
        }));
    }
    // ---- the releaser produces the awaited events for the target and every bystander
    {
        let (w2, rn) = (w.clone(), release_now.clone());
        let (dally, delay) = (p.release_dally, p.release_delay);
        let adjacent = if never { None } else { p.adjacent };
        // cancel first, then the events: the target can not consume any, so exactly one event
        // per bystander must do - a wake-up swallowed by the cancelled target starves one
        let n_events = if adjacent == Some(true) && n_by >= 1 { n_by } else { 1 + n_by };
        let tco = target.co.as_ref().unwrap().coroutine().clone();
        let tre2 = target_reached_end.clone();
        actors.push(rt::spawn_actor(Ctx::Thread, "releaser", move || {
            for _ in 0..dally {
                engine::yield_point();
            }
            if delay > 0 {
                engine::sleep(delay);
            }
            if adjacent == Some(true) {
                w2.cancel_issued.store(true, Ordering::Relaxed);
                unsafe { tco.cancel() };
            }
            rt::set_flag(&rn);
            if never {
                // nothing is ever produced; the senders stay alive until the target is gone
                engine::sleep(120_000_000);
                drop(mpsc_tx);
                drop(mpmc_tx);
                return;
            }
            match kind {
                Kind::Park => tco.unpark(),
                Kind::SemWait => {
                    for _ in 0..n_events {
                        w2.posts.fetch_add(1, Ordering::Relaxed);
                        w2.sem.post();
                    }
                }
                Kind::CondWait => {
                    for _ in 0..n_events {
                        *w2.cv_pair.0.lock().unwrap() += 1;
                        w2.cv_pair.1.notify_one();
                    }
                }
                Kind::FlagWait => w2.flag.fire(),
                Kind::MpscRecv | Kind::SpscRecv => mpsc_tx.send(1),
                Kind::MpmcRecv | Kind::Select => {
                    for k in 0..n_events {
                        let _ = mpmc_tx.send(k as u32);
                    }
                }
                _ => {}
            }
            if adjacent == Some(false) {
                w2.cancel_issued.store(true, Ordering::Relaxed);
                unsafe { tco.cancel() };
            }
            if adjacent == Some(true) && n_by >= 1 {
                // the target may have got through without blocking at all (the cancel takes
                // effect only at a blocking call) and consumed one event legitimately: make
                // up for it. A cancelled target gets nothing, so nothing is added then
                engine::sleep(5_000_000);
                if tre2.load(Ordering::Relaxed) {
                    match kind {
                        Kind::SemWait => {
                            w2.posts.fetch_add(1, Ordering::Relaxed);
                            w2.sem.post();
                        }
                        Kind::CondWait => {
                            *w2.cv_pair.0.lock().unwrap() += 1;
                            w2.cv_pair.1.notify_one();
                        }
                        Kind::MpmcRecv | Kind::Select => {
                            let _ = mpmc_tx.send(99);
                        }
                        _ => {}
                    }
                }
            }
            // keep the senders alive for a while, then disconnect: nobody must hang on them
            engine::sleep(60_000_000);
            drop(mpsc_tx);
            drop(mpmc_tx);
        }));
    }
    // ---- the cancel
    let cancel_flag = Arc::new(AtomicBool::new(false));
    {
        let co = target.co.as_ref().unwrap().coroutine().clone();
        let (k, w2, cf) = (p.cancel_after, w.clone(), cancel_flag.clone());
        let second = p.second_cancel;
        let skip = p.adjacent.is_some() && !never;
        actors.push(rt::spawn_actor(Ctx::Thread, "ctl", move || {
            if skip {
                return;
            }
            for _ in 0..k {
                engine::yield_point();
            }
            w2.cancel_issued.store(true, Ordering::Relaxed);
            cf.store(true, Ordering::Relaxed);
            unsafe { co.cancel() };
            if let Some(gap) = second {
                for _ in 0..gap {
                    engine::yield_point();
                }
                unsafe { co.cancel() };
            }
        }));
    }
    let mut all = vec![target];
    all.append(&mut actors);
    let deadline = engine::now() + 150_000_000;
    rt::await_actors(&all, deadline);
    // outcomes
    let reached_end = target_reached_end.load(Ordering::Relaxed);
    if let Some(h) = all[0].co.take() {
        match h.join() {
            Ok(()) => {
                if !reached_end {
                    violation("target joined Ok without reaching its end");
                }
            }
            Err(e) => {
                if !matches!(e.downcast_ref::<generator::Error>(), Some(generator::Error::Cancel)) {
                    violation(&format!("target ended with a foreign panic: {}", crate::panic_msg(&e)));
                }
                if reached_end {
                    violation("target reached its end but join reports Cancel");
                }
            }
        }
    }
    for a in all.iter_mut().skip(1) {
        rt::expect_end(a, false);
    }
    // every value owned by the target's stack dropped exactly once
    for id in &owned_ids {
        if tok_state(*id) != 2 {
            violation(&format!("value {} owned by the cancelled coroutine's stack was not dropped (state {})", id, tok_state(*id)));
        }
    }
    // the lock it held while blocked is released and not poisoned
    if w.held.is_poisoned() {
        violation("the lock held by the cancelled coroutine was poisoned by the cancellation unwind");
    }
    if w.held.try_lock().is_err() {
        violation("the lock held by the cancelled coroutine was not released");
    }
    // the primitives still work and nothing was lost
    if w.m.is_poisoned() || w.rw.is_poisoned() || w.cv_pair.0.is_poisoned() {
        violation("a primitive was poisoned by the cancellation");
    }
    match kind {
        Kind::MutexLock => {
            if w.m.try_lock().is_err() {
                violation("mutex still held at the end (hand-off lost to the cancelled waiter)");
            }
        }
        Kind::RwRead | Kind::RwWrite => {
            if w.rw.try_write().is_err() {
                violation("rwlock still held at the end (hand-off lost to the cancelled waiter)");
            }
        }
        Kind::SemWait => {
            let want = w.posts.load(Ordering::Relaxed) - w.succ.load(Ordering::Relaxed);
            if w.sem.get_value() as i64 != want {
                violation(&format!(
                    "semaphore value {} at the end, expected {} posts - {} successful waits",
                    w.sem.get_value(),
                    w.posts.load(Ordering::Relaxed),
                    w.succ.load(Ordering::Relaxed)
                ));
            }
        }
        _ => {}
    }
    // "a coroutine that is not cancelled never observes a cancellation": neither do the coroutines
    // that inherit the pooled stacks of this run's coroutines
    rt::fresh_coroutines_start_clean(3);
    engine::finish_ok()
}

// ------------------------------------------------------------------------------------------------
// aimed (spsc): the receiver's registration (spsc Park::subscribe) is held up on one worker, a send
// resumes the receiver on another one, it takes its value and waits in the park's destructor for
// the registration to finish - and the cancel lands exactly there. The wait must not be a
// cancellation point: the park lives on the coroutine's stack and subscribe is still using it
// ------------------------------------------------------------------------------------------------

pub fn run_spsc_aimed(seed: u64, mut ov: impl FnMut(&mut engine::Cfg)) -> ! {
    use may::sync::spsc;
    let mut r = gen_rng(seed);
    let nth = r.below(4) as u32;
    let send_delay = *r.pick(&[20_000u64, 100_000, 400_000]);
    let cancel_dally = r.below(40) as u32;
    let mut cfg = swarm_cfg(seed, &Swarm { stalls: false, ..swarm() });
    cfg.tick_ns = 25;
    ov(&mut cfg);
    engine::init(cfg);
    engine::set_extra("params", engine::json_str(&format!("spsc aimed: nth {} send_delay {} cancel_dally {}", nth, send_delay, cancel_dally)));
    rt::boot(&RtCfg { workers: 2, pool_cap: 1, stack_size: 0x4000, poll_ns: 10_000_000 });
    engine::set_diag(|| format!("in flight: {}", OPS.pending()));
    engine::set_vt_limit(engine::now() + 300_000_000);
    let parking = Arc::new(AtomicBool::new(false));
    let (stx, srx) = spsc::channel::<u32>();
    let waiter = {
        let wp = parking.clone();
        unsafe {
            coroutine::spawn(move || {
                rt::set_flag(&wp);
                engine::stall_self_at_site("src/sync/spsc.rs", "load", nth, 1_500_000);
                let v = srx.recv();
                engine::disarm_stall();
                if v != Ok(9) {
                    violation(&format!("spsc recv returned {:?}", v));
                }
            })
        }
    };
    let ctl = {
        let (wp, co) = (parking.clone(), waiter.coroutine().clone());
        rt::spawn_actor(Ctx::Thread, "ctl", move || {
            rt::wait_flag(&wp, usize::MAX);
            engine::sleep(send_delay);
            let _ = stx.send(9);
            for _ in 0..cancel_dally {
                engine::yield_point();
            }
            unsafe { co.cancel() };
            engine::sleep(20_000_000);
            drop(stx);
        })
    };
    let o = OPS.begin("join of the receiver".to_string());
    match waiter.join() {
        Ok(()) => {}
        Err(e) => {
            if !matches!(e.downcast_ref::<generator::Error>(), Some(generator::Error::Cancel)) {
                violation(&format!("the receiver ended with a foreign panic: {}", crate::panic_msg(&e)));
            }
        }
    }
    o.done();
    // the receiver's stack goes back to the pool (capacity 1) and is used again at once
    for k in 0..3u8 {
        let h = unsafe {
            coroutine::spawn(move || {
                let mut junk = [k.wrapping_mul(37).wrapping_add(0x5A); 2048];
                coroutine::yield_now();
                junk[7] = junk[9].wrapping_add(1);
                std::hint::black_box(&junk);
                junk[7]
            })
        };
        let _ = h.join();
    }
    rt::await_actors(std::slice::from_ref(&ctl), engine::now() + 100_000_000);
    engine::finish_ok()
}
