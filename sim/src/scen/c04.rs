//! C04 — the work-stealing run queue (may_queue::spmc) hands every task to exactly one taker.
//! No runtime: plain sim threads over the real queue.

use crate::engine::{self, violation};
use crate::oracle::{tok_state, Tok};
use crate::{gen_rng, swarm_cfg, Swarm};
use may_queue::spmc::{self, Local, Steal};
use std::sync::atomic::{AtomicU32, Ordering};
use std::sync::{Arc, Mutex};

pub fn swarm() -> Swarm {
    Swarm {
        alloc_modes: true,
        stalls: true,
        stall_max_ns: 3_000_000,
        est_len: 1500,
        max_steps: 600_000,
        ..Default::default()
    }
}

// ------------------------------------------------------------------------------------------------
// family A: the scheduler's shape, W threads each with a Local and Steal handles to the others
// ------------------------------------------------------------------------------------------------

#[derive(Debug, Clone)]
enum AOp {
    Push,
    Pop,
    Steal(usize),
    Check,
}

#[derive(Debug)]
struct ParamsA {
    w: usize,
    preroll: Vec<usize>,
    scripts: Vec<Vec<AOp>>,
}

fn gen_a(seed: u64) -> ParamsA {
    let mut r = gen_rng(seed);
    let w = r.range(2, 3) as usize;
    let preroll = (0..w)
        .map(|_| match r.below(6) {
            0 => 0,
            1..=3 => 32 - 5 + r.below(7) as usize,
            4 => 64 - 4 + r.below(6) as usize,
            _ => r.below(70) as usize,
        })
        .collect();
    let scripts = (0..w)
        .map(|me| {
            let n = r.range(3, 10) as usize;
            (0..n)
                .map(|_| match r.below(100) {
                    0..=39 => AOp::Push,
                    40..=64 => AOp::Pop,
                    65..=94 => AOp::Steal({
                        let mut v = r.below(w as u64) as usize;
                        if v == me {
                            v = (v + 1) % w;
                        }
                        v
                    }),
                    _ => AOp::Check,
                })
                .collect()
        })
        .collect();
    ParamsA { w, preroll, scripts }
}

static FINISHED: AtomicU32 = AtomicU32::new(0);
#[allow(clippy::declare_interior_mutable_const)]
const ZT: AtomicU32 = AtomicU32::new(0);
/// how often each task id was handed to a taker (a task silently dropped by the queue is
/// not "obtained")
static TAKEN: [AtomicU32; 4096] = [ZT; 4096];

fn taken(id: u32, who: &str) {
    if TAKEN[id as usize].fetch_add(1, Ordering::Relaxed) != 0 {
        violation(&format!("{}: task {} obtained a second time", who, id));
    }
}

fn check_all_taken(ids: &[u32]) {
    for id in ids {
        let n = TAKEN[*id as usize].load(Ordering::Relaxed);
        if n != 1 {
            violation(&format!("task {} was pushed but obtained {} times by takers (lost inside the queue)", id, n));
        }
    }
}
static NEXT_EXTRA: AtomicU32 = AtomicU32::new(2000);

pub fn run_a(seed: u64, mut ov: impl FnMut(&mut engine::Cfg)) -> ! {
    let p = gen_a(seed);
    let mut cfg = swarm_cfg(seed, &swarm());
    ov(&mut cfg);
    engine::init(cfg);
    engine::set_extra("params", engine::json_str(&format!("{:?}", p)));

    let mut locals: Vec<Option<Local<Tok>>> = Vec::new();
    let mut steals: Vec<Steal<Tok>> = Vec::new();
    for _ in 0..p.w {
        let (s, l) = spmc::local::<Tok>();
        steals.push(s);
        locals.push(Some(l));
    }
    // sequential pre-roll of each queue to its offset
    let mut pre_id = 3000u32;
    for (i, l) in locals.iter_mut().enumerate() {
        let l = l.as_mut().unwrap();
        for _ in 0..p.preroll[i] {
            l.push_back(Tok::new(pre_id));
            match l.pop() {
                Some(t) => {
                    if t.id() != pre_id {
                        violation(&format!("preroll: pushed {} popped {}", pre_id, t.id()));
                    }
                }
                None => violation("preroll: pop returned None right after a push"),
            }
            pre_id += 1;
        }
    }
    let returned: Arc<Mutex<Vec<Option<Local<Tok>>>>> = Arc::new(Mutex::new((0..p.w).map(|_| None).collect()));
    let all_ids: Arc<Mutex<Vec<u32>>> = Arc::new(Mutex::new(Vec::new()));
    let w = p.w as u32;
    let mut actors = Vec::new();
    for me in 0..p.w {
        let mut local = locals[me].take().unwrap();
        let st: Vec<Steal<Tok>> = steals.iter().map(|s| s.clone()).collect();
        let script = p.scripts[me].clone();
        let returned = returned.clone();
        let all_ids = all_ids.clone();
        actors.push(engine::spawn(&format!("worker{}", me), move || {
            let mut next = (me * 100) as u32;
            // (no order oracle here: a task can be stolen and stolen back, which legitimately
            // re-queues it behind younger ones; order is checked on the raw queue, family B)
            let mut last_own: i64 = -1;
            let mut took = |t: Tok, _from_own_pop: bool, _last_own: &mut i64| {
                taken(t.id(), "worker");
                drop(t);
            };
            for op in script.iter() {
                match op {
                    AOp::Push => {
                        all_ids.lock().unwrap().push(next);
                        local.push_back(Tok::new(next));
                        next += 1;
                    }
                    AOp::Pop => {
                        if let Some(t) = local.pop() {
                            took(t, true, &mut last_own);
                        }
                    }
                    AOp::Steal(v) => {
                        if let Some(t) = st[*v].steal_into(&mut local) {
                            took(t, false, &mut last_own);
                        }
                    }
                    AOp::Check => {
                        let _ = local.has_tasks();
                        let _ = st[(me + 1) % st.len()].is_empty();
                    }
                }
            }
            // epilogue: a taker that claimed a slot past the published tail waits for the
            // owner to fill it, so every owner keeps pushing while somebody is still at work
            FINISHED.fetch_add(1, Ordering::Relaxed);
            let mut extra = 0;
            while FINISHED.load(Ordering::Relaxed) < w && extra < 200 {
                let id = NEXT_EXTRA.fetch_add(1, Ordering::Relaxed);
                all_ids.lock().unwrap().push(id);
                local.push_back(Tok::new(id));
                extra += 1;
                engine::sleep(2_000_000);
            }
            returned.lock().unwrap()[me] = Some(local);
        }));
    }
    engine::set_vt_limit(engine::now() + 3_000_000_000);
    for a in actors {
        engine::join(a);
    }
    // drain everything on the main thread
    let mut ls: Vec<Local<Tok>> = returned.lock().unwrap().iter_mut().map(|l| l.take().unwrap()).collect();
    for l in ls.iter_mut() {
        while let Some(t) = l.pop() {
            taken(t.id(), "final drain");
        }
    }
    drop(ls);
    drop(steals);
    check_all_taken(&all_ids.lock().unwrap());
    for id in all_ids.lock().unwrap().iter() {
        match tok_state(*id) {
            2 => {}
            1 => violation(&format!("task {} was pushed but nobody ever got it (lost)", id)),
            s => violation(&format!("task {} in state {}", id, s)),
        }
    }
    engine::finish_ok()
}

// ------------------------------------------------------------------------------------------------
// family B: the raw queue, one owner pushing, k consumers with pop / bulk_pop
// ------------------------------------------------------------------------------------------------

#[derive(Debug)]
struct ParamsB {
    preroll: usize,
    pushes: usize,
    consumers: Vec<Vec<u8>>,
    owner_pops: bool,
}

fn gen_b(seed: u64) -> ParamsB {
    let mut r = gen_rng(seed);
    let preroll = match r.below(6) {
        0 => 0,
        1..=3 => 32 - 6 + r.below(8) as usize,
        4 => 64 - 5 + r.below(7) as usize,
        _ => r.below(100) as usize,
    };
    let k = r.range(1, 3) as usize;
    let pushes = r.range(2, 14) as usize;
    let consumers = (0..k)
        .map(|_| {
            let n = r.range(2, 8) as usize;
            (0..n).map(|_| if r.chance(3, 5) { 0 } else { 1 }).collect()
        })
        .collect();
    ParamsB { preroll, pushes, consumers, owner_pops: r.chance(1, 3) }
}

pub fn run_b(seed: u64, mut ov: impl FnMut(&mut engine::Cfg)) -> ! {
    let p = gen_b(seed);
    let mut cfg = swarm_cfg(seed, &swarm());
    ov(&mut cfg);
    engine::init(cfg);
    engine::set_extra("params", engine::json_str(&format!("{:?}", p)));

    let q: Arc<spmc::Queue<Tok>> = Arc::new(spmc::Queue::new());
    let mut pre_id = 3000u32;
    for _ in 0..p.preroll {
        q.push(Tok::new(pre_id));
        match q.pop() {
            Some(t) => {
                if t.id() != pre_id {
                    violation(&format!("preroll: pushed {} popped {}", pre_id, t.id()));
                }
            }
            None => violation("preroll: pop returned None right after a push"),
        }
        pre_id += 1;
    }
    let n_cons = p.consumers.len() as u32;
    let all_ids: Arc<Mutex<Vec<u32>>> = Arc::new(Mutex::new(Vec::new()));
    let mut actors = Vec::new();
    {
        let q = q.clone();
        let all_ids = all_ids.clone();
        let (pushes, owner_pops) = (p.pushes, p.owner_pops);
        actors.push(engine::spawn("owner", move || {
            let mut last: i64 = -1;
            for k in 0..pushes {
                let id = k as u32;
                all_ids.lock().unwrap().push(id);
                q.push(Tok::new(id));
                if owner_pops && k % 3 == 2 {
                    if let Some(t) = q.pop() {
                        taken(t.id(), "owner");
                        let id = t.id() as i64;
                        if id <= last {
                            violation(&format!("owner: pops out of push order ({} after {})", id, last));
                        }
                        last = id;
                    }
                }
            }
            // epilogue, see family A
            let mut extra = 0;
            while FINISHED.load(Ordering::Relaxed) < n_cons && extra < 200 {
                let id = NEXT_EXTRA.fetch_add(1, Ordering::Relaxed);
                all_ids.lock().unwrap().push(id);
                q.push(Tok::new(id));
                extra += 1;
                engine::sleep(2_000_000);
            }
        }));
    }
    for (ci, ops) in p.consumers.iter().cloned().enumerate() {
        let q = q.clone();
        actors.push(engine::spawn(&format!("consumer{}", ci), move || {
            // the head only moves forward: what one consumer takes is ascending in push order
            let mut last: i64 = -1;
            let mut check = |ids: &[u32], what: &str, last: &mut i64| {
                for w in ids.windows(2) {
                    if w[1] != w[0] + 1 && !(w[0] < 2000 && w[1] >= 2000) {
                        violation(&format!("consumer{}: {} batch not contiguous in push order: {:?}", ci, what, ids));
                    }
                }
                for id in ids {
                    // ids of the two ranges (script pushes, epilogue pushes) are each ascending
                    let key = if *id >= 2000 { (*id as i64) + 100_000 } else { *id as i64 };
                    if key <= *last {
                        violation(&format!("consumer{}: {} returned {} after a later task (order broken)", ci, what, id));
                    }
                    *last = key;
                }
            };
            for op in ops {
                if op == 0 {
                    if let Some(t) = q.pop() {
                        taken(t.id(), "consumer");
                        check(&[t.id()], "pop", &mut last);
                    }
                } else {
                    let v = q.bulk_pop();
                    let ids: Vec<u32> = v.iter().map(|t| t.id()).collect();
                    for id in &ids {
                        taken(*id, "consumer");
                    }
                    check(&ids, "bulk_pop", &mut last);
                }
            }
            FINISHED.fetch_add(1, Ordering::Relaxed);
        }));
    }
    engine::set_vt_limit(engine::now() + 3_000_000_000);
    for a in actors {
        engine::join(a);
    }
    loop {
        let v = q.bulk_pop();
        if v.is_empty() {
            break;
        }
        for t in v.iter() {
            taken(t.id(), "final drain");
        }
    }
    if !q.is_empty() {
        violation("is_empty() false after a bulk_pop returned nothing");
    }
    match Arc::try_unwrap(q) {
        Ok(q) => drop(q),
        Err(_) => violation("harness: queue still shared"),
    }
    check_all_taken(&all_ids.lock().unwrap());
    for id in all_ids.lock().unwrap().iter() {
        match tok_state(*id) {
            2 => {}
            1 => violation(&format!("task {} was pushed but nobody ever got it (lost)", id)),
            s => violation(&format!("task {} in state {}", id, s)),
        }
    }
    engine::finish_ok()
}

// ------------------------------------------------------------------------------------------------
// family C: heavy traffic across several blocks with immediate address reuse (allocator LIFO mode)
// so that a stalled taker can hit the "block freed and re-allocated at the same address" case
// ------------------------------------------------------------------------------------------------

pub fn run_c(seed: u64, mut ov: impl FnMut(&mut engine::Cfg)) -> ! {
    let mut r = gen_rng(seed);
    let pushes = r.range(40, 110) as usize;
    let n_cons = r.range(2, 3) as usize;
    let burst = r.range(1, 6) as usize;
    let mut cfg = swarm_cfg(seed, &Swarm { est_len: 4000, ..swarm() });
    // mostly LIFO reuse, sometimes poison
    cfg.alloc_mode = if r.chance(4, 5) { 1 } else { 2 };
    // The ABA case needs a taker that sleeps between reading head / tail and its CAS while the
    // others consume two whole blocks (the freed block comes back at the same address). Aim
    // for it: in 3 of 4 runs one to three stalls of some hundred steps' worth of virtual time
    // (time passes 25 ns per step while somebody runs), anywhere in spmc.rs
    if r.chance(3, 4) {
        cfg.stall_budget = r.range(1, 3) as u32;
        cfg.stall_ppm = 15 * cfg.stall_budget;
        cfg.stall_focus = &["may_queue/src/spmc.rs"];
        cfg.stall_max_ns = *r.pick(&[8_000u64, 15_000, 30_000, 60_000]);
        cfg.tick_ns = 25;
    }
    ov(&mut cfg);
    engine::init(cfg);
    engine::set_extra("params", engine::json_str(&format!("pushes {} consumers {} burst {}", pushes, n_cons, burst)));

    let q: Arc<spmc::Queue<Tok>> = Arc::new(spmc::Queue::new());
    let all_ids: Arc<Mutex<Vec<u32>>> = Arc::new(Mutex::new(Vec::new()));
    let owner_done = Arc::new(AtomicU32::new(0));
    let mut actors = Vec::new();
    {
        let q = q.clone();
        let all_ids = all_ids.clone();
        let owner_done = owner_done.clone();
        let nc = n_cons as u32;
        actors.push(engine::spawn("owner", move || {
            for k in 0..pushes {
                let id = k as u32;
                all_ids.lock().unwrap().push(id);
                q.push(Tok::new(id));
                // let the consumers drain the queue now and then so that it runs empty
                if k % burst == burst - 1 {
                    engine::yield_point();
                }
            }
            owner_done.store(1, Ordering::Relaxed);
            let mut extra = 0;
            while FINISHED.load(Ordering::Relaxed) < nc && extra < 400 {
                let id = NEXT_EXTRA.fetch_add(1, Ordering::Relaxed);
                all_ids.lock().unwrap().push(id);
                q.push(Tok::new(id));
                extra += 1;
                engine::sleep(1_000_000);
            }
        }));
    }
    for ci in 0..n_cons {
        let q = q.clone();
        let owner_done = owner_done.clone();
        let use_bulk = ci == 1;
        actors.push(engine::spawn(&format!("consumer{}", ci), move || {
            let mut idle = 0;
            loop {
                let mut got = 0;
                if use_bulk {
                    let v = q.bulk_pop();
                    for t in v.iter() {
                        taken(t.id(), "consumer");
                        got += 1;
                    }
                } else if let Some(t) = q.pop() {
                    taken(t.id(), "consumer");
                    got += 1;
                }
                if got == 0 {
                    if owner_done.load(Ordering::Relaxed) == 1 {
                        idle += 1;
                        if idle > 2 {
                            break;
                        }
                    }
                    engine::yield_point();
                }
            }
            FINISHED.fetch_add(1, Ordering::Relaxed);
        }));
    }
    engine::set_vt_limit(engine::now() + 3_000_000_000);
    for a in actors {
        engine::join(a);
    }
    loop {
        let v = q.bulk_pop();
        if v.is_empty() {
            break;
        }
        for t in v.iter() {
            taken(t.id(), "final drain");
        }
    }
    match Arc::try_unwrap(q) {
        Ok(q) => drop(q),
        Err(_) => violation("harness: queue still shared"),
    }
    check_all_taken(&all_ids.lock().unwrap());
    engine::set_extra("alloc_reuse", format!("{}", crate::alloc::REUSED.load(Ordering::Relaxed)));
    engine::finish_ok()
}

// ------------------------------------------------------------------------------------------------
// family D: the ABA case, aimed. A taker reads head / tail, is held up right before its CAS
// (a scenario-placed stall), the others consume exactly two blocks' worth so that the freed head
// block comes back at the same address (allocator LIFO mode) with head at the same slot, and the
// stale CAS succeeds: the taker has now claimed slots the owner has not filled yet and must wait
// for them ("completes as soon as that slot has been filled"), never hand out what is there
// ------------------------------------------------------------------------------------------------

#[derive(Debug)]
struct ParamsD {
    /// pushed / popped before the taker starts (head = popped, tail = pushed)
    pushed: usize,
    popped: usize,
    /// the taker uses bulk_pop (else pop)
    bulk: bool,
    /// the stall is placed at this schedule point of the taker's call
    stall_at: u32,
    /// consumed by the helper while the taker is held up (64 = same address, same slot)
    consume: usize,
    /// how many of the slots the stale claim covers are published when the taker wakes up
    published: usize,
    poison: bool,
}

fn gen_d(seed: u64) -> ParamsD {
    let mut r = gen_rng(seed);
    let pushed = match r.below(4) {
        0 => r.range(1, 31) as usize,
        1 => r.range(33, 63) as usize,
        _ => r.range(1, 100) as usize,
    };
    let left = r.range(1, 8).min(pushed as u64) as usize;
    let popped = pushed - left;
    let consume = match r.below(10) {
        0 => 32,
        1 => 63,
        2 => 65,
        3 => 128,
        _ => 64,
    };
    ParamsD { pushed, popped, bulk: r.chance(2, 3), stall_at: r.below(5) as u32, consume, published: r.below(left as u64 + 1) as usize, poison: r.chance(1, 6) }
}

pub fn run_d(seed: u64, mut ov: impl FnMut(&mut engine::Cfg)) -> ! {
    let p = gen_d(seed);
    let mut cfg = swarm_cfg(seed, &Swarm { est_len: 3000, stalls: false, ..swarm() });
    cfg.alloc_mode = if p.poison { 2 } else { 1 };
    // time passes while somebody runs: a helper spinning on a block the sleeping taker is
    // about to close gets on when the taker wakes up
    cfg.tick_ns = 25;
    ov(&mut cfg);
    engine::init(cfg);
    engine::set_extra("params", engine::json_str(&format!("{:?}", p)));

    let q: Arc<spmc::Queue<Tok>> = Arc::new(spmc::Queue::new());
    let mut all_ids: Vec<u32> = Vec::new();
    let mut next = 0u32;
    // set-up (single threaded): head at `popped`, tail at `pushed`
    for _ in 0..p.pushed {
        all_ids.push(next);
        q.push(Tok::new(next));
        next += 1;
    }
    for _ in 0..p.popped {
        match q.pop() {
            Some(t) => taken(t.id(), "set-up"),
            None => violation("set-up: pop returned None although values are queued"),
        }
    }
    let taker_done = Arc::new(AtomicU32::new(0));
    let mut actors = Vec::new();
    {
        let (q, bulk, stall_at, td) = (q.clone(), p.bulk, p.stall_at, taker_done.clone());
        actors.push(engine::spawn("taker", move || {
            // held up for a long (virtual) time inside the call, between its loads and its CAS
            engine::stall_self_at(stall_at, 2_000_000);
            if bulk {
                let v = q.bulk_pop();
                for t in v.iter() {
                    taken(t.id(), "taker (bulk_pop)");
                }
            } else if let Some(t) = q.pop() {
                taken(t.id(), "taker (pop)");
            }
            engine::disarm_stall();
            td.store(1, Ordering::Relaxed);
        }));
    }
    let all = Arc::new(Mutex::new(all_ids));
    {
        let (q, all, td) = (q.clone(), all.clone(), taker_done.clone());
        let (consume, left, published) = (p.consume, p.pushed - p.popped, p.published);
        actors.push(engine::spawn("owner+helper", move || {
            // wait until the taker is being held up (or got through without)
            while engine::stall_log().is_empty() && td.load(Ordering::Relaxed) == 0 {
                engine::yield_point();
            }
            let mut next = next;
            let mut push = |n: usize, q: &spmc::Queue<Tok>| {
                for _ in 0..n {
                    all.lock().unwrap().push(next);
                    q.push(Tok::new(next));
                    next += 1;
                }
            };
            // consume `consume` values (pushing what is needed), then leave `published` values
            // queued: the stale claim covers `left` slots starting at the new head
            // (push and pop in turns: a block is freed before the next one is allocated, so the
            // addresses alternate as they do in a running scheduler)
            let mut queued = left;
            for _ in 0..consume {
                if queued == 0 {
                    push(1, &q);
                    queued += 1;
                }
                match q.pop() {
                    Some(t) => {
                        taken(t.id(), "helper");
                        queued -= 1;
                    }
                    None => {
                        // the taker got its values before it was held up
                        queued = 0;
                    }
                }
            }
            while queued > 0 {
                match q.pop() {
                    Some(t) => taken(t.id(), "helper"),
                    None => break,
                }
                queued -= 1;
            }
            push(published, &q);
            // now the taker wakes up (2 ms); afterwards keep pushing slowly until it is done:
            // a taker that claimed unfilled slots completes as soon as they are filled
            engine::sleep(2_500_000);
            let mut extra = 0;
            while td.load(Ordering::Relaxed) == 0 && extra < 200 {
                push(1, &q);
                extra += 1;
                engine::sleep(1_000_000);
            }
        }));
    }
    engine::set_vt_limit(engine::now() + 2_000_000_000);
    for a in actors {
        engine::join(a);
    }
    if taker_done.load(Ordering::Relaxed) == 0 {
        violation("the taker never completed although the owner kept pushing");
    }
    loop {
        let v = q.bulk_pop();
        if v.is_empty() {
            break;
        }
        for t in v.iter() {
            taken(t.id(), "final drain");
        }
    }
    match Arc::try_unwrap(q) {
        Ok(q) => drop(q),
        Err(_) => violation("harness: queue still shared"),
    }
    check_all_taken(&all.lock().unwrap());
    engine::set_extra("alloc_reuse", format!("{}", crate::alloc::REUSED.load(Ordering::Relaxed)));
    engine::finish_ok()
}
