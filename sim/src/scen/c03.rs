//! C03 — mpsc / spsc block queues are linearizable FIFO (no runtime, plain sim threads)

use crate::engine::{self, violation};
use crate::oracle::{stamp, tok_state, QEv, QHistory, Tok};
use crate::rng::Rng;
use crate::{gen_rng, swarm_cfg, Swarm};
use std::sync::Arc;

enum Q {
    Mpsc(may_queue::mpsc::Queue<Tok>),
    Spsc(may_queue::spsc::Queue<Tok>),
}

impl Q {
    fn push(&self, t: Tok) {
        match self {
            Q::Mpsc(q) => q.push(t),
            Q::Spsc(q) => q.push(t),
        }
    }
    fn pop(&self) -> Option<Tok> {
        match self {
            Q::Mpsc(q) => q.pop(),
            Q::Spsc(q) => q.pop(),
        }
    }
    fn bulk_pop(&self) -> Vec<Tok> {
        match self {
            Q::Mpsc(q) => q.bulk_pop().into_iter().collect(),
            Q::Spsc(q) => q.bulk_pop().into_iter().collect(),
        }
    }
    fn peek_id(&self) -> Option<u32> {
        unsafe {
            match self {
                Q::Mpsc(q) => q.peek().map(|t| t.id()),
                Q::Spsc(q) => q.peek().map(|t| t.id()),
            }
        }
    }
    fn len(&self) -> usize {
        match self {
            Q::Mpsc(q) => q.len(),
            Q::Spsc(q) => q.len(),
        }
    }
    fn is_empty(&self) -> bool {
        match self {
            Q::Mpsc(q) => q.is_empty(),
            Q::Spsc(q) => q.is_empty(),
        }
    }
}

#[derive(Debug, Clone)]
struct Params {
    spsc: bool,
    producers: usize,
    counts: Vec<usize>,
    preroll: usize,
    leftover: usize,
    cons_ops: Vec<u8>,
    early_drop: bool,
    prod_len_calls: bool,
    /// aimed mode: the consumer is held up at this schedule point of its first operations
    stall_at: Option<u32>,
}

fn gen(seed: u64) -> Params {
    let mut r: Rng = gen_rng(seed);
    let spsc = r.chance(2, 5);
    let producers = if spsc { 1 } else { r.range(1, 3) as usize };
    let block = if spsc { 32 } else { 64 };
    let counts: Vec<usize> = (0..producers).map(|_| r.range(1, 8) as usize).collect();
    let total: usize = counts.iter().sum();
    // pre-roll so that the concurrent phase straddles a block boundary
    let preroll = match r.below(10) {
        0 => 0,
        1..=5 => (block - 5 + r.below(7) as usize).saturating_sub(total / 2),
        6..=7 => (2 * block - 5 + r.below(7) as usize).saturating_sub(total / 2),
        8 => 3 * block - 4 + r.below(6) as usize,
        _ => r.below(3 * block as u64) as usize,
    };
    // values already queued when the concurrent phase starts: usually a few, sometimes a backlog of
    // one to two blocks (a consumer that is a whole block ring behind: the producer is then about
    // to reuse the very block the consumer is still reading)
    let leftover = if r.chance(1, 4) { (block - 4 + r.below(block as u64 + 8) as usize).min(2 * block + 2) } else { r.below(4) as usize };
    let n_ops = total * 2 + 6 + r.below(8) as usize + leftover / 3;
    let cons_ops: Vec<u8> = (0..n_ops)
        .map(|_| match r.below(100) {
            0..=44 => 0,  // pop
            45..=64 => 1, // bulk_pop
            65..=79 => 2, // peek then pop
            80..=89 => 3, // len
            _ => 4,       // is_empty
        })
        .collect();
    // aimed (spsc): no spare block in the ring (the consumer never left the first block), a
    // backlog that ends one to three pushes before a block boundary, and a consumer that starts
    // with bulk_pops: the producer's boundary push then asks for a block exactly while the
    // consumer finishes the oldest one
    let (preroll, leftover, cons_ops, stall_at) = if spsc && r.chance(1, 4) {
        let pre = r.below(32) as usize;
        let j = r.below(3) as usize;
        let mut ops = cons_ops;
        for o in ops.iter_mut().take(3) {
            *o = 1;
        }
        (pre, 32 + (31 - pre) - j, ops, Some(r.below(10) as u32))
    } else {
        (preroll, leftover, cons_ops, None)
    };
    Params {
        spsc,
        producers,
        counts,
        preroll,
        leftover,
        cons_ops,
        early_drop: r.chance(1, 5),
        prod_len_calls: !spsc && r.chance(1, 3),
        stall_at,
    }
}

pub fn swarm() -> Swarm {
    Swarm {
        alloc_modes: true,
        est_len: 600,
        max_steps: 200_000,
        ..Default::default()
    }
}

pub fn run(seed: u64, mut cfg_override: impl FnMut(&mut engine::Cfg)) -> ! {
    let p = gen(seed);
    let mut cfg = swarm_cfg(seed, &swarm());
    if p.stall_at.is_some() {
        // time passes while the producer runs, the held-up consumer comes back
        cfg.tick_ns = 25;
    }
    cfg_override(&mut cfg);
    engine::init(cfg);
    engine::set_extra("params", crate::engine::json_str(&format!("{:?}", p)));

    let q = Arc::new(if p.spsc {
        Q::Spsc(may_queue::spsc::Queue::new())
    } else {
        Q::Mpsc(may_queue::mpsc::Queue::new())
    });
    let hist = Arc::new(QHistory::new());

    // sequential set-up: pre-roll the queue to the chosen offset
    let mut next_id = 2000u32;
    for _ in 0..p.preroll {
        q.push(Tok::new(next_id));
        let t = q.pop().expect("preroll pop");
        if t.id() != next_id {
            violation(&format!("preroll: pushed {} popped {}", next_id, t.id()));
        }
        next_id += 1;
    }
    // values already inside when the concurrent phase starts
    let mut all_ids: Vec<u32> = Vec::new();
    for k in 0..p.leftover {
        let id = 1000 + k as u32;
        let inv = stamp();
        q.push(Tok::new(id));
        hist.add(QEv::Push { id, inv, ret: stamp() });
        all_ids.push(id);
    }

    let mut actors = Vec::new();
    for (pi, &n) in p.counts.iter().enumerate() {
        let q = q.clone();
        let hist = hist.clone();
        let ids: Vec<u32> = (0..n).map(|k| (pi * 100 + k) as u32).collect();
        all_ids.extend(ids.iter().copied());
        let len_calls = p.prod_len_calls;
        actors.push(engine::spawn(&format!("producer{}", pi), move || {
            for id in ids {
                let t = Tok::new(id);
                let inv = stamp();
                q.push(t);
                hist.add(QEv::Push { id, inv, ret: stamp() });
                if len_calls && id % 3 == 0 {
                    let inv = stamp();
                    let n = q.len();
                    hist.add(QEv::Len { n, inv, ret: stamp(), consumer: false, is_empty_call: false });
                }
            }
        }));
    }
    let total = all_ids.len();
    let consumer = {
        let q = q.clone();
        let hist = hist.clone();
        let ops = p.cons_ops.clone();
        let early = p.early_drop;
        let stall_at = p.stall_at;
        engine::spawn("consumer", move || {
            if let Some(n) = stall_at {
                engine::stall_self_at(n, 3_000);
            }
            let mut got = 0usize;
            for (k, op) in ops.iter().enumerate() {
                if got == total || (early && k > ops.len() / 3) {
                    break;
                }
                match op {
                    0 => {
                        let inv = stamp();
                        let r = q.pop();
                        let ids: Vec<u32> = r.iter().map(|t| t.id()).collect();
                        got += ids.len();
                        hist.add(QEv::Pop { ids, inv, ret: stamp(), bulk: false });
                    }
                    1 => {
                        let inv = stamp();
                        let r = q.bulk_pop();
                        let ids: Vec<u32> = r.iter().map(|t| t.id()).collect();
                        got += ids.len();
                        hist.add(QEv::Pop { ids, inv, ret: stamp(), bulk: true });
                    }
                    2 => {
                        let inv = stamp();
                        let id = q.peek_id();
                        hist.add(QEv::Peek { id, inv, ret: stamp() });
                        let inv = stamp();
                        let r = q.pop();
                        let ids: Vec<u32> = r.iter().map(|t| t.id()).collect();
                        got += ids.len();
                        hist.add(QEv::Pop { ids, inv, ret: stamp(), bulk: false });
                    }
                    3 => {
                        let inv = stamp();
                        let n = q.len();
                        hist.add(QEv::Len { n, inv, ret: stamp(), consumer: true, is_empty_call: false });
                    }
                    _ => {
                        let inv = stamp();
                        let e = q.is_empty();
                        hist.add(QEv::Len { n: if e { 0 } else { 1 }, inv, ret: stamp(), consumer: true, is_empty_call: true });
                    }
                }
            }
        })
    };
    for a in actors {
        engine::join(a);
    }
    engine::join(consumer);

    if p.early_drop {
        // drop the queue with whatever is still inside: each value dropped exactly once
        let inside_before: Vec<u32> = all_ids.iter().copied().filter(|&i| tok_state(i) == 1).collect();
        match Arc::try_unwrap(q) {
            Ok(q) => drop(q),
            Err(_) => violation("harness: queue still shared at the end"),
        }
        for id in &all_ids {
            if tok_state(*id) != 2 {
                violation(&format!(
                    "value {} neither popped nor dropped when the queue was dropped (state {}), {} values were inside",
                    id,
                    tok_state(*id),
                    inside_before.len()
                ));
            }
        }
    } else {
        // drain: everything pushed must come out, in order
        loop {
            let inv = stamp();
            let r = q.pop();
            let ids: Vec<u32> = r.iter().map(|t| t.id()).collect();
            let empty = ids.is_empty();
            hist.add(QEv::Pop { ids, inv, ret: stamp(), bulk: false });
            if empty {
                break;
            }
        }
        let popped = hist.popped_ids();
        for id in &all_ids {
            if !popped.contains(id) {
                violation(&format!("value {} was pushed but never popped (lost)", id));
            }
        }
        if popped.len() != total {
            violation(&format!("{} values pushed, {} popped", total, popped.len()));
        }
        let inv = stamp();
        let n = q.len();
        hist.add(QEv::Len { n, inv, ret: stamp(), consumer: true, is_empty_call: false });
        drop(q);
        for id in &all_ids {
            if tok_state(*id) != 2 {
                violation(&format!("value {} not dropped exactly once (state {})", id, tok_state(*id)));
            }
        }
    }
    if let Err(e) = hist.check() {
        violation(&format!("queue history not linearizable to a FIFO queue: {}", e));
    }
    engine::set_extra("ops", format!("{}", hist.len()));
    engine::finish_ok()
}
