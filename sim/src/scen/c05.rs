//! C05 — Mutex: mutual exclusion, no stranded waiter, threads and coroutines mixed

use crate::engine::{self, violation};
use crate::rt::{self, Actor, Ctx, RtCfg, OPS};
use crate::{gen_rng, swarm_cfg, Swarm};
use may::sync::Mutex;
use std::sync::atomic::{AtomicBool, AtomicU32, AtomicU64, Ordering};
use std::sync::{Arc, TryLockError};

pub fn swarm() -> Swarm {
    Swarm {
        alloc_modes: true,
        stalls: true,
        stall_max_ns: 2_000_000,
        est_len: 4000,
        max_steps: 500_000,
        ..Default::default()
    }
}

#[derive(Debug, Clone)]
enum Inside {
    Nothing,
    Yield,
    Sleep(u64),
}

#[derive(Debug, Clone)]
enum Op {
    Lock(Inside),
    TryLock(Inside),
    Dally(u32),
}

#[derive(Debug)]
struct Params {
    rt: RtCfg,
    actors: Vec<(Ctx, Vec<Op>)>,
    cancel: Option<(usize, u32)>,
}

fn gen(seed: u64) -> Params {
    let mut r = gen_rng(seed);
    let rt = RtCfg::gen(&mut r, 3);
    let n = r.range(2, 4) as usize;
    let mut actors = Vec::new();
    for _ in 0..n {
        let ctx = Ctx::gen(&mut r);
        let k = r.range(1, 4) as usize;
        let ops = (0..k)
            .map(|_| {
                let inside = match r.below(10) {
                    0..=3 => Inside::Nothing,
                    4..=7 => Inside::Yield,
                    _ => Inside::Sleep(*r.pick(&[1_000u64, 300_000, 1_000_000])),
                };
                match r.below(10) {
                    0..=5 => Op::Lock(inside),
                    6..=7 => Op::TryLock(inside),
                    _ => Op::Dally(r.below(6) as u32),
                }
            })
            .collect();
        actors.push((ctx, ops));
    }
    let cos: Vec<usize> = (0..n).filter(|&i| actors[i].0 == Ctx::Co).collect();
    let cancel = if !cos.is_empty() && r.chance(1, 3) {
        Some((*r.pick(&cos), r.below(60) as u32))
    } else {
        None
    };
    Params { rt, actors, cancel }
}

static OCC: AtomicU32 = AtomicU32::new(0);
static COMPLETED: AtomicU64 = AtomicU64::new(0);
static INTEREST: AtomicU32 = AtomicU32::new(0);
static INTEREST_SEQ: AtomicU64 = AtomicU64::new(0);

struct Interest;
impl Interest {
    fn new() -> Interest {
        INTEREST.fetch_add(1, Ordering::Relaxed);
        INTEREST_SEQ.fetch_add(1, Ordering::Relaxed);
        Interest
    }
}
impl Drop for Interest {
    fn drop(&mut self) {
        INTEREST.fetch_sub(1, Ordering::Relaxed);
    }
}

struct OccGuard;
impl OccGuard {
    fn enter(who: &str) -> OccGuard {
        let o = OCC.fetch_add(1, Ordering::Relaxed);
        if o != 0 {
            violation(&format!("{} entered the critical section while {} other holder(s) are inside", who, o));
        }
        OccGuard
    }
}
impl Drop for OccGuard {
    fn drop(&mut self) {
        OCC.fetch_sub(1, Ordering::Relaxed);
    }
}

fn section(who: &str, g: &mut u64, inside: &Inside) {
    let occ = OccGuard::enter(who);
    let v = *g;
    match inside {
        Inside::Nothing => engine::point(),
        Inside::Yield => rt::relax(),
        Inside::Sleep(ns) => rt::nap(*ns),
    }
    if OCC.load(Ordering::Relaxed) != 1 {
        violation(&format!("{}: somebody else entered the critical section meanwhile", who));
    }
    if *g != v {
        violation(&format!("{}: protected data changed under the lock ({} -> {})", who, v, *g));
    }
    *g = v + 1;
    COMPLETED.fetch_add(1, Ordering::Relaxed);
    drop(occ);
}

pub fn run(seed: u64, mut ov: impl FnMut(&mut engine::Cfg)) -> ! {
    let p = gen(seed);
    let mut cfg = swarm_cfg(seed, &swarm());
    ov(&mut cfg);
    engine::init(cfg);
    engine::set_extra("params", engine::json_str(&format!("{:?}", p)));
    rt::boot(&p.rt);
    engine::set_diag(|| format!("in flight: {}", OPS.pending()));

    let m = Arc::new(Mutex::new(0u64));
    let mut actors: Vec<Actor> = Vec::new();
    for (ai, (ctx, ops)) in p.actors.iter().cloned().enumerate() {
        let m = m.clone();
        let name = format!("actor{}", ai);
        let name2 = name.clone();
        actors.push(rt::spawn_actor(ctx, &name, move || {
            for (k, op) in ops.iter().enumerate() {
                match op {
                    Op::Dally(n) => rt::dally(*n),
                    Op::Lock(inside) => {
                        let _i = Interest::new();
                        let o = OPS.begin(format!("{} op{} lock()", name2, k));
                        let r = m.lock();
                        o.done();
                        match r {
                            Ok(mut g) => section(&name2, &mut g, inside),
                            Err(_) => violation(&format!("{}: lock() reported a poisoned mutex, nobody panicked", name2)),
                        }
                    }
                    Op::TryLock(inside) => {
                        let c0 = INTEREST.load(Ordering::Relaxed);
                        let s0 = INTEREST_SEQ.load(Ordering::Relaxed);
                        let _i = Interest::new();
                        match m.try_lock() {
                            Ok(mut g) => section(&name2, &mut g, inside),
                            Err(TryLockError::WouldBlock) => {
                                if c0 == 0 && INTEREST_SEQ.load(Ordering::Relaxed) == s0 + 1 {
                                    violation(&format!(
                                        "{}: try_lock() failed although nobody held or requested the mutex during the whole call",
                                        name2
                                    ));
                                }
                            }
                            Err(TryLockError::Poisoned(_)) => {
                                violation(&format!("{}: try_lock() reported poison, nobody panicked", name2))
                            }
                        };
                    }
                }
            }
        }));
    }
    let cancel_flag = Arc::new(AtomicBool::new(false));
    if let Some((ai, k)) = p.cancel {
        let co = actors[ai].co.as_ref().unwrap().coroutine().clone();
        actors.push(rt::spawn_canceller(vec![(k, co, cancel_flag.clone())]));
    }
    let deadline = engine::now() + 60_000_000;
    engine::set_vt_limit(deadline + 1_000_000);
    rt::await_actors(&actors, deadline);
    for (ai, a) in actors.iter_mut().enumerate() {
        let target = p.cancel.map(|c| c.0 == ai).unwrap_or(false);
        rt::expect_end(a, target);
    }
    // the mutex is free, not poisoned, and holds exactly the completed increments
    if m.is_poisoned() {
        violation("mutex poisoned although no holder panicked (only a cancellation unwound)");
    }
    match m.try_lock() {
        Ok(g) => {
            let c = COMPLETED.load(Ordering::Relaxed);
            if *g != c {
                violation(&format!("protected counter is {} after {} completed sections (lost update)", *g, c));
            }
        }
        Err(TryLockError::WouldBlock) => violation("mutex still held after every actor has finished (stranded lock)"),
        Err(TryLockError::Poisoned(_)) => violation("mutex poisoned at the end"),
    };
    engine::finish_ok()
}
