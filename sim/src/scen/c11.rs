//! C11 — Condvar loses no notification; Barrier / WaitGroup release exactly when due

use crate::engine::{self, violation};
use crate::rt::{self, Actor, Ctx, RtCfg, OPS};
use crate::{gen_rng, swarm_cfg, Swarm};
use may::sync::{Barrier, Condvar, Mutex, WaitGroup};
use std::sync::atomic::{AtomicBool, AtomicU32, Ordering};
use std::sync::Arc;
use std::time::Duration;

pub fn swarm() -> Swarm {
    Swarm {
        alloc_modes: true,
        stalls: true,
        stall_max_ns: 2_000_000,
        est_len: 5000,
        max_steps: 600_000,
        ..Default::default()
    }
}

const DURS: [u64; 5] = [1_000, 500_000, 1_000_000, 1_500_000, 3_000_000];

// ------------------------------------------------------------------------------------------------
// condvar: ticket protocol
// ------------------------------------------------------------------------------------------------

#[derive(Debug, Clone)]
enum WKind {
    /// loop on wait() until a ticket is there
    Wait,
    /// wait_while(no ticket)
    WaitWhile,
    /// one wait_timeout(d), then leaves without a ticket (passing a notification it received on)
    Timed(u64),
}

#[derive(Debug)]
struct ParamsC {
    rt: RtCfg,
    waiters: Vec<(Ctx, WKind, u32)>,
    notifiers: Vec<(Ctx, u32, bool, u32, u64)>, // ctx, tickets, notify while holding the lock, dally between, virtual delay before each
    broadcast: bool,
    cancel: Option<(usize, u32)>,
}

fn gen_c(seed: u64) -> ParamsC {
    let mut r = gen_rng(seed);
    let rt = RtCfg::gen(&mut r, 3);
    let nw = r.range(1, 4) as usize;
    let waiters: Vec<(Ctx, WKind, u32)> = (0..nw)
        .map(|_| {
            let k = match r.below(10) {
                0..=4 => WKind::Wait,
                5..=6 => WKind::WaitWhile,
                _ => WKind::Timed(*r.pick(&DURS)),
            };
            (Ctx::gen(&mut r), k, r.below(8) as u32)
        })
        .collect();
    let broadcast = r.chance(1, 4);
    // one ticket per waiter, spread over 1..2 notifiers
    let nn = r.range(1, 2) as usize;
    // half of the notifiers act about when a timed waiter's timeout expires: the notification
    // then meets a waiter that is just leaving and has to be passed on
    let timed: Vec<u64> = waiters.iter().filter_map(|w| if let WKind::Timed(d) = w.1 { Some(d) } else { None }).collect();
    let mut notifiers: Vec<(Ctx, u32, bool, u32, u64)> = (0..nn)
        .map(|_| {
            let delay = if !timed.is_empty() && r.chance(1, 2) {
                let d = *r.pick(&timed);
                let d = d.div_ceil(1_000_000).max(1) * 1_000_000;
                d.saturating_sub(*r.pick(&[0u64, 0, 1_000, 5_000, 20_000]))
            } else {
                0
            };
            (Ctx::gen(&mut r), 0, r.chance(1, 2), r.below(10) as u32, delay)
        })
        .collect();
    // one ticket (and one notify_one) per waiter that insists on one; timed waiters are
    // passers-by: they never take a ticket, so every notification that reaches one of them -
    // on its way out after a timeout (the library passes it on) or still waiting (it passes it
    // on itself) - is needed by somebody else
    let untimed = waiters.iter().filter(|w| !matches!(w.1, WKind::Timed(_))).count();
    for _ in 0..untimed.max(1) {
        let k = r.below(nn as u64) as usize;
        notifiers[k].1 += 1;
    }
    let cos: Vec<usize> = (0..nw).filter(|&i| waiters[i].0 == Ctx::Co).collect();
    let cancel = if !cos.is_empty() && r.chance(1, 4) {
        Some((*r.pick(&cos), r.below(60) as u32))
    } else {
        None
    };
    ParamsC { rt, waiters, notifiers, broadcast, cancel }
}

struct State {
    tickets: u32,
    flag: bool,
}

static OCC: AtomicU32 = AtomicU32::new(0);

fn occ_enter(who: &str, what: &str) {
    let o = OCC.fetch_add(1, Ordering::Relaxed);
    if o != 0 {
        violation(&format!("{}: {} returned but {} other holder(s) are inside the mutex", who, what, o));
    }
}

fn occ_leave() {
    OCC.fetch_sub(1, Ordering::Relaxed);
}

/// guard that keeps the occupancy right when a cancellation unwinds out of `wait`
struct OccOnUnwind(bool);
impl Drop for OccOnUnwind {
    fn drop(&mut self) {
        if self.0 {
            occ_leave();
        }
    }
}

pub fn run_condvar(seed: u64, mut ov: impl FnMut(&mut engine::Cfg)) -> ! {
    let p = gen_c(seed);
    let mut cfg = swarm_cfg(seed, &swarm());
    ov(&mut cfg);
    engine::init(cfg);
    engine::set_extra("params", engine::json_str(&format!("{:?}", p)));
    rt::boot(&p.rt);
    engine::set_diag(|| format!("in flight: {}", OPS.pending()));

    let pair = Arc::new((Mutex::new(State { tickets: 0, flag: false }), Condvar::new()));
    let broadcast = p.broadcast;
    let mut actors: Vec<Actor> = Vec::new();
    for (wi, (ctx, kind, dally)) in p.waiters.iter().cloned().enumerate() {
        let pair = pair.clone();
        let name = format!("waiter{}", wi);
        let nm = name.clone();
        actors.push(rt::spawn_actor(ctx, &name, move || {
            rt::dally(dally);
            let (m, cv) = (&pair.0, &pair.1);
            let o = OPS.begin(format!("{} {:?}", nm, kind));
            let mut g = m.lock().unwrap();
            occ_enter(&nm, "lock()");
            let mut inside = OccOnUnwind(true);
            let ready = |s: &State| if broadcast { s.flag } else { s.tickets > 0 };
            let mut take = true;
            match kind {
                WKind::Wait => {
                    while !ready(&g) {
                        occ_leave();
                        inside.0 = false;
                        g = cv.wait(g).unwrap();
                        occ_enter(&nm, "Condvar::wait");
                        inside.0 = true;
                    }
                }
                WKind::WaitWhile => {
                    occ_leave();
                    inside.0 = false;
                    g = cv.wait_while(g, |s| !ready(s)).unwrap();
                    occ_enter(&nm, "Condvar::wait_while");
                    inside.0 = true;
                    if !ready(&g) {
                        violation(&format!("{}: wait_while returned although the condition still holds", nm));
                    }
                }
                WKind::Timed(d) => {
                    take = false;
                    if !ready(&g) {
                        occ_leave();
                        inside.0 = false;
                        let t0 = engine::now();
                        let (g2, res) = cv.wait_timeout(g, Duration::from_nanos(d)).unwrap();
                        let t1 = engine::now();
                        g = g2;
                        occ_enter(&nm, "Condvar::wait_timeout");
                        inside.0 = true;
                        if res.timed_out() && t1 < t0 + d {
                            violation(&format!("{}: Condvar::wait_timeout({} ns) timed out after {} ns", nm, d, t1 - t0));
                        }
                        // a waiter that timed out just leaves: a notification that met it on its way
                        // out must have been passed on by the library. One that was notified in
                        // time has no use for the ticket and passes the notification on itself
                        if !res.timed_out() && !broadcast && g.tickets > 0 {
                            cv.notify_one();
                        }
                    }
                }
            }
            if !broadcast && g.tickets > 0 && take {
                g.tickets -= 1;
            }
            engine::point();
            if OCC.load(Ordering::Relaxed) != 1 {
                violation(&format!("{}: mutex not exclusively held after the wait returned", nm));
            }
            occ_leave();
            inside.0 = false;
            drop(g);
            o.done();
        }));
    }
    let n_waiters = actors.len();
    for (ni, (ctx, tickets, holding, dally, delay)) in p.notifiers.iter().cloned().enumerate() {
        let pair = pair.clone();
        let name = format!("notifier{}", ni);
        actors.push(rt::spawn_actor(ctx, &name, move || {
            let (m, cv) = (&pair.0, &pair.1);
            for k in 0..tickets {
                if delay > 0 && k == 0 {
                    rt::nap(delay);
                }
                rt::dally(dally);
                let mut g = m.lock().unwrap();
                occ_enter("notifier", "lock()");
                if broadcast {
                    g.flag = true;
                } else {
                    g.tickets += 1;
                }
                if holding {
                    if broadcast {
                        cv.notify_all();
                    } else {
                        cv.notify_one();
                    }
                    occ_leave();
                    drop(g);
                } else {
                    occ_leave();
                    drop(g);
                    if broadcast {
                        cv.notify_all();
                    } else {
                        cv.notify_one();
                    }
                }
            }
        }));
    }
    let cancel_flag = Arc::new(AtomicBool::new(false));
    if let Some((wi, k)) = p.cancel {
        let co = actors[wi].co.as_ref().unwrap().coroutine().clone();
        actors.push(rt::spawn_canceller(vec![(k, co, cancel_flag.clone())]));
    }
    let deadline = engine::now() + 80_000_000;
    engine::set_vt_limit(deadline + 1_000_000);
    rt::await_actors(&actors, deadline);
    for wi in 0..n_waiters {
        let target = p.cancel.map(|c| c.0 == wi).unwrap_or(false);
        rt::expect_end(&mut actors[wi], target);
    }
    if pair.0.is_poisoned() {
        violation("mutex poisoned by a cancellation unwind out of Condvar::wait");
    }
    match pair.0.try_lock() {
        Ok(_) => {}
        Err(_) => violation("the mutex is still held after all actors finished"),
    };
    if OCC.load(Ordering::Relaxed) != 0 {
        violation("harness: occupancy not zero at the end");
    }
    engine::finish_ok()
}

// ------------------------------------------------------------------------------------------------
// barrier
// ------------------------------------------------------------------------------------------------

#[derive(Debug)]
struct ParamsB {
    rt: RtCfg,
    n: usize,
    gens: usize,
    parties: Vec<(Ctx, u32)>,
    /// parties = mult * n: more parties than the barrier's size share it (as std's barrier allows);
    /// which wait belongs to which generation is then decided by the arrival order
    mult: usize,
}

fn gen_b(seed: u64) -> ParamsB {
    let mut r = gen_rng(seed);
    let rt = RtCfg::gen(&mut r, 3);
    let n = r.range(2, 4) as usize;
    let gens = r.range(1, 3) as usize;
    let mult = *r.pick(&[1usize, 1, 2]);
    let parties = (0..n * mult).map(|_| (Ctx::gen(&mut r), r.below(10) as u32)).collect();
    ParamsB { rt, n, gens, parties, mult }
}

#[allow(clippy::declare_interior_mutable_const)]
const ZU: AtomicU32 = AtomicU32::new(0);
static ARRIVED: [AtomicU32; 8] = [ZU; 8];
static LEADERS: [AtomicU32; 8] = [ZU; 8];
static RETURNED: [AtomicU32; 8] = [ZU; 8];

pub fn run_barrier(seed: u64, mut ov: impl FnMut(&mut engine::Cfg)) -> ! {
    let p = gen_b(seed);
    let mut cfg = swarm_cfg(seed, &swarm());
    ov(&mut cfg);
    engine::init(cfg);
    engine::set_extra("params", engine::json_str(&format!("{:?}", p)));
    rt::boot(&p.rt);
    engine::set_diag(|| format!("in flight: {}", OPS.pending()));

    let b = Arc::new(Barrier::new(p.n));
    let (n, gens) = (p.n as u32, p.gens);
    let mult = p.mult;
    let mut actors: Vec<Actor> = Vec::new();
    for (pi, (ctx, dally)) in p.parties.iter().cloned().enumerate() {
        let b = b.clone();
        let name = format!("party{}", pi);
        let nm = name.clone();
        actors.push(rt::spawn_actor(ctx, &name, move || {
            for g in 0..gens {
                rt::dally(dally);
                if mult > 1 && g > 0 {
                    // more parties than the barrier's size: a party that runs ahead could pair with
                    // the others' later waits and be left alone at the end; a round starts when
                    // everybody is through the previous one
                    let all = (mult as u32) * n * g as u32;
                    let mut spins = 0;
                    while RETURNED[0].load(Ordering::Relaxed) < all {
                        rt::nap(20_000);
                        spins += 1;
                        if spins > 3000 {
                            break;
                        }
                    }
                }
                let o = OPS.begin(format!("{} Barrier::wait gen {}", nm, g));
                // with more parties than the barrier's size everything is counted in slot 0
                let g = if mult > 1 { 0 } else { g };
                ARRIVED[g].fetch_add(1, Ordering::Relaxed);
                let r = b.wait();
                o.done();
                let a = ARRIVED[g].load(Ordering::Relaxed);
                if a < n {
                    violation(&format!(
                        "{}: Barrier::wait returned from generation {} when only {} of {} parties had arrived",
                        nm, g, a, n
                    ));
                }
                if r.is_leader() {
                    LEADERS[g].fetch_add(1, Ordering::Relaxed);
                }
                RETURNED[g].fetch_add(1, Ordering::Relaxed);
            }
        }));
    }
    let deadline = engine::now() + 60_000_000;
    engine::set_vt_limit(deadline + 1_000_000);
    rt::await_actors(&actors, deadline);
    for a in actors.iter_mut() {
        rt::expect_end(a, false);
    }
    if mult > 1 {
        // every generation completes (the number of arrivals is a multiple of n): all waits have
        // returned (else: hung above) and there is one leader per generation
        let want = (mult * gens) as u32;
        let l = LEADERS[0].load(Ordering::Relaxed);
        if l != want {
            violation(&format!("{} generations of Barrier({}) shared by {} parties had {} leaders", want, n, mult * n as usize, l));
        }
        engine::finish_ok();
    }
    for g in 0..gens {
        let l = LEADERS[g].load(Ordering::Relaxed);
        if l != 1 {
            violation(&format!("generation {} had {} leaders", g, l));
        }
        if RETURNED[g].load(Ordering::Relaxed) != n {
            violation(&format!("generation {}: {} of {} parties returned", g, RETURNED[g].load(Ordering::Relaxed), n));
        }
    }
    engine::finish_ok()
}

// ------------------------------------------------------------------------------------------------
// barrier with cancelled waiters
// ------------------------------------------------------------------------------------------------
//
// Each generation has n - 1 lasting parties and one victim, a fresh coroutine that arrives once
// and is cancelled at a random moment after it has announced its arrival. A cancelled waiter has
// arrived (it is counted) and the Condvar makes it pass on a notification that reached it while
// it was leaving - a spurious wake-up for a party that already waits for the next generation.
// Everything runs on ONE worker, all parties are coroutines and none of them sleeps (a coroutine
// whose timer expires is resumed on the timer thread, in parallel with the worker): the barrier's
// internal mutex is then never contended (nobody holds it across a switch), so a victim cannot be
// cancelled while it queues for that mutex and is counted for certain - the number of arrivals
// of each generation is known exactly. Victim g + 1 is spawned by the party that completes the
// returns of generation g, so it belongs to generation g + 1 without having to wait.

#[derive(Debug)]
struct ParamsV {
    rt: RtCfg,
    n: usize,
    gens: usize,
    /// yield points of each lasting party before each of its waits
    dally: Vec<u32>,
    /// per generation: victim's yield points before it arrives, controller's between the
    /// victim's announcement and the cancel
    victims: Vec<(u32, u32)>,
}

fn gen_v(seed: u64) -> ParamsV {
    let mut r = gen_rng(seed);
    let mut rt = RtCfg::gen(&mut r, 1);
    rt.workers = 1;
    let n = *r.pick(&[2usize, 2, 3]);
    let gens = r.range(2, 4) as usize;
    // a party that does not yield between two generations is back in the queue before a
    // cancelled victim of the previous generation has run its way out
    let dally = (0..n - 1).map(|_| *r.pick(&[0u32, 0, 0, 1, 2, 5])).collect();
    let victims = (0..gens).map(|_| (*r.pick(&[0u32, 0, 1, 3]), r.below(40) as u32)).collect();
    ParamsV { rt, n, gens, dally, victims }
}

#[allow(clippy::declare_interior_mutable_const)]
const ZB: std::sync::atomic::AtomicBool = std::sync::atomic::AtomicBool::new(false);
static V_ANNOUNCED: [std::sync::atomic::AtomicBool; 8] = [ZB; 8];
static ALL_ARRIVED: [std::sync::atomic::AtomicBool; 8] = [ZB; 8];
static V_RETURNED: [AtomicU32; 8] = [ZU; 8];
static LASTING_RETURNED: AtomicU32 = AtomicU32::new(0);

type VictimSlots = Arc<std::sync::Mutex<Vec<Option<Actor>>>>;

fn spawn_victim(g: usize, n: u32, dally: u32, b: &Arc<Barrier>, slots: &VictimSlots) {
    let b = b.clone();
    let a = rt::spawn_actor(Ctx::Co, &format!("victim{}", g), move || {
        rt::dally(dally);
        if ARRIVED[g].fetch_add(1, Ordering::Relaxed) + 1 == n {
            rt::set_flag(&ALL_ARRIVED[g]);
        }
        rt::set_flag(&V_ANNOUNCED[g]);
        let r = b.wait();
        // not cancelled in time: an ordinary party
        if ARRIVED[g].load(Ordering::Relaxed) < n {
            violation(&format!("victim{}: Barrier::wait returned from generation {} before all {} parties had arrived", g, g, n));
        }
        if r.is_leader() {
            LEADERS[g].fetch_add(1, Ordering::Relaxed);
        }
        V_RETURNED[g].store(1, Ordering::Relaxed);
    });
    slots.lock().unwrap()[g] = Some(a);
}

pub fn run_barrier_victims(seed: u64, mut ov: impl FnMut(&mut engine::Cfg)) -> ! {
    let p = gen_v(seed);
    let mut cfg = swarm_cfg(seed, &swarm());
    ov(&mut cfg);
    engine::init(cfg);
    engine::set_extra("params", engine::json_str(&format!("{:?}", p)));
    rt::boot(&p.rt);
    engine::set_diag(|| format!("in flight: {}", OPS.pending()));

    let b = Arc::new(Barrier::new(p.n));
    let (n, gens) = (p.n as u32, p.gens);
    let slots: VictimSlots = Arc::new(std::sync::Mutex::new((0..gens).map(|_| None).collect()));
    let vdally: Arc<Vec<u32>> = Arc::new(p.victims.iter().map(|v| v.0).collect());
    let mut actors: Vec<Actor> = Vec::new();
    for (pi, dally) in p.dally.iter().cloned().enumerate() {
        let b = b.clone();
        let name = format!("party{}", pi);
        let nm = name.clone();
        let (slots, vdally) = (slots.clone(), vdally.clone());
        actors.push(rt::spawn_actor(Ctx::Co, &name, move || {
            for g in 0..gens {
                rt::dally(dally);
                let o = OPS.begin(format!("{} Barrier::wait gen {}", nm, g));
                if ARRIVED[g].fetch_add(1, Ordering::Relaxed) + 1 == n {
                    rt::set_flag(&ALL_ARRIVED[g]);
                }
                let r = b.wait();
                o.done();
                let a = ARRIVED[g].load(Ordering::Relaxed);
                if a < n {
                    violation(&format!(
                        "{}: Barrier::wait returned from generation {} when only {} of {} parties had arrived (one of the earlier parties was cancelled while it waited)",
                        nm, g, a, n
                    ));
                }
                if r.is_leader() {
                    LEADERS[g].fetch_add(1, Ordering::Relaxed);
                }
                RETURNED[g].fetch_add(1, Ordering::Relaxed);
                // whoever completes the returns of this generation brings in the next victim
                if LASTING_RETURNED.fetch_add(1, Ordering::Relaxed) + 1 == (n - 1) * (g as u32 + 1) && g + 1 < gens {
                    spawn_victim(g + 1, n, vdally[g + 1], &b, &slots);
                }
            }
        }));
    }
    spawn_victim(0, n, vdally[0], &b, &slots);
    // the controller cancels each victim some yield points after it has announced its arrival
    let ats: Vec<u32> = p.victims.iter().map(|v| v.1).collect();
    let slots2 = slots.clone();
    let ctl = rt::spawn_actor(Ctx::Thread, "ctl", move || {
        for (g, at) in ats.into_iter().enumerate() {
            rt::wait_flag(&V_ANNOUNCED[g], usize::MAX);
            let co = loop {
                let co = slots2.lock().unwrap()[g].as_ref().map(|a| a.co.as_ref().unwrap().coroutine().clone());
                match co {
                    Some(co) => break co,
                    None => engine::yield_point(),
                }
            };
            // every other victim: aim at the moment the last party arrives (its notify_all
            // races with the cancel for the parked victim)
            let mut at = at;
            if g % 2 == 1 {
                rt::wait_flag(&ALL_ARRIVED[g], usize::MAX);
                at %= 12;
            }
            for _ in 0..at {
                engine::yield_point();
            }
            unsafe { co.cancel() };
        }
    });
    let deadline = engine::now() + 60_000_000;
    engine::set_vt_limit(deadline + 1_000_000);
    actors.push(ctl);
    rt::await_actors(&actors, deadline);
    let mut victims: Vec<Actor> = slots.lock().unwrap().iter_mut().filter_map(|s| s.take()).collect();
    if victims.len() != gens {
        violation(&format!("harness: {} of {} victims were spawned", victims.len(), gens));
    }
    rt::await_actors(&victims, deadline);
    for a in actors.iter_mut() {
        rt::expect_end(a, false);
    }
    for a in victims.iter_mut() {
        rt::expect_end(a, true);
    }
    for g in 0..gens {
        let l = LEADERS[g].load(Ordering::Relaxed);
        let vr = V_RETURNED[g].load(Ordering::Relaxed);
        // a victim that left by the cancel cannot have been the leader; the leader is the last
        // party to arrive and does not wait
        if l != 1 {
            violation(&format!("generation {} had {} leaders (victim returned normally: {})", g, l, vr == 1));
        }
        if RETURNED[g].load(Ordering::Relaxed) != n - 1 {
            violation(&format!("generation {}: {} of {} lasting parties returned", g, RETURNED[g].load(Ordering::Relaxed), n - 1));
        }
    }
    engine::finish_ok()
}

// ------------------------------------------------------------------------------------------------
// wait group
// ------------------------------------------------------------------------------------------------

#[derive(Debug)]
struct ParamsW {
    rt: RtCfg,
    holders: Vec<(Ctx, u32, u64)>,
    waiter_ctx: Ctx,
    waiter_dally: u32,
}

fn gen_w(seed: u64) -> ParamsW {
    let mut r = gen_rng(seed);
    let rt = RtCfg::gen(&mut r, 3);
    let n = r.range(0, 4) as usize;
    let holders = (0..n)
        .map(|_| (Ctx::gen(&mut r), r.below(15) as u32, if r.chance(1, 3) { *r.pick(&[300_000u64, 1_000_000, 2_000_000]) } else { 0 }))
        .collect();
    ParamsW { rt, holders, waiter_ctx: Ctx::gen(&mut r), waiter_dally: r.below(20) as u32 }
}

static DROPS_BEGUN: AtomicU32 = AtomicU32::new(0);

pub fn run_waitgroup(seed: u64, mut ov: impl FnMut(&mut engine::Cfg)) -> ! {
    let p = gen_w(seed);
    let mut cfg = swarm_cfg(seed, &swarm());
    ov(&mut cfg);
    engine::init(cfg);
    engine::set_extra("params", engine::json_str(&format!("{:?}", p)));
    rt::boot(&p.rt);
    engine::set_diag(|| format!("in flight: {}", OPS.pending()));

    let wg = WaitGroup::new();
    let n = p.holders.len() as u32;
    let mut actors: Vec<Actor> = Vec::new();
    for (hi, (ctx, dally, nap)) in p.holders.iter().cloned().enumerate() {
        let c = wg.clone();
        actors.push(rt::spawn_actor(ctx, &format!("holder{}", hi), move || {
            rt::dally(dally);
            if nap > 0 {
                rt::nap(nap);
            }
            DROPS_BEGUN.fetch_add(1, Ordering::Relaxed);
            drop(c);
        }));
    }
    {
        let dally = p.waiter_dally;
        actors.push(rt::spawn_actor(p.waiter_ctx, "waiter", move || {
            rt::dally(dally);
            let o = OPS.begin("WaitGroup::wait".to_string());
            wg.wait();
            o.done();
            let d = DROPS_BEGUN.load(Ordering::Relaxed);
            if d != n {
                violation(&format!("WaitGroup::wait returned when only {} of {} other clones had been dropped", d, n));
            }
        }));
    }
    let deadline = engine::now() + 60_000_000;
    engine::set_vt_limit(deadline + 1_000_000);
    rt::await_actors(&actors, deadline);
    for a in actors.iter_mut() {
        rt::expect_end(a, false);
    }
    engine::finish_ok()
}
