//! C10 — Semphore permits are conserved; SyncFlag is a one-way latch

use crate::engine::{self, violation};
use crate::rt::{self, Actor, Ctx, RtCfg, OPS};
use crate::{gen_rng, swarm_cfg, Swarm};
use may::sync::{Semphore, SyncFlag};
use std::sync::atomic::{AtomicBool, AtomicI64, AtomicU64, Ordering};
use std::sync::Arc;
use std::time::Duration;

pub fn swarm() -> Swarm {
    Swarm {
        alloc_modes: true,
        stalls: true,
        stall_max_ns: 2_000_000,
        est_len: 4000,
        max_steps: 500_000,
        ..Default::default()
    }
}

const DURS: [u64; 6] = [0, 1_000, 500_000, 1_000_000, 1_500_000, 3_000_000];

#[derive(Debug, Clone)]
enum SOp {
    Wait,
    WaitTimeout(u64),
    TryWait,
    Post,
    Dally(u32),
}

#[derive(Debug)]
struct ParamsS {
    rt: RtCfg,
    init: usize,
    actors: Vec<(Ctx, Vec<SOp>)>,
    feeder_posts: usize,
    feeder_ctx: Ctx,
    cancel: Option<(usize, u32)>,
}

fn gen_s(seed: u64) -> ParamsS {
    let mut r = gen_rng(seed);
    let rt = RtCfg::gen(&mut r, 3);
    let init = r.below(4) as usize;
    let n = r.range(2, 5) as usize;
    let mut actors = Vec::new();
    #[allow(unused_assignments)]
    let (mut waits, mut maybe, mut posts) = (0usize, 0usize, 0usize);
    for _ in 0..n {
        let ctx = Ctx::gen(&mut r);
        let k = r.range(1, 4) as usize;
        let ops: Vec<SOp> = (0..k)
            .map(|_| match r.below(100) {
                0..=29 => SOp::Wait,
                30..=49 => SOp::WaitTimeout(*r.pick(&DURS)),
                50..=59 => SOp::TryWait,
                60..=89 => SOp::Post,
                _ => SOp::Dally(r.below(8) as u32),
            })
            .collect();
        for o in &ops {
            match o {
                SOp::Wait => waits += 1,
                SOp::WaitTimeout(_) | SOp::TryWait => maybe += 1,
                SOp::Post => posts += 1,
                _ => {}
            }
        }
        actors.push((ctx, ops));
    }
    let cos: Vec<usize> = (0..n).filter(|&i| actors[i].0 == Ctx::Co).collect();
    let cancel = if !cos.is_empty() && r.chance(1, 3) {
        Some((*r.pick(&cos), r.below(60) as u32))
    } else {
        None
    };
    // permits must suffice for every untimed wait even if all timed/try waits succeed; only
    // the feeder is counted on: an actor's own posts may come after its waits in program
    // order, and the posts of a cancel target may never happen
    let _ = posts;
    let need = waits + maybe;
    let feeder_posts = need.saturating_sub(init);
    ParamsS { rt, init, actors, feeder_posts, feeder_ctx: Ctx::gen(&mut r), cancel }
}

static POSTS_INV: AtomicI64 = AtomicI64::new(0);
static SUCC: AtomicI64 = AtomicI64::new(0);

fn check_online(init: usize, who: &str) {
    let s = SUCC.load(Ordering::Relaxed);
    let p = POSTS_INV.load(Ordering::Relaxed);
    if s > init as i64 + p {
        violation(&format!(
            "{}: {} successful waits but only {} initial permits + {} posts invoked so far (permit duplicated)",
            who, s, init, p
        ));
    }
}

pub fn run_sem(seed: u64, mut ov: impl FnMut(&mut engine::Cfg)) -> ! {
    let p = gen_s(seed);
    let mut cfg = swarm_cfg(seed, &swarm());
    ov(&mut cfg);
    engine::init(cfg);
    engine::set_extra("params", engine::json_str(&format!("{:?}", p)));
    rt::boot(&p.rt);
    engine::set_diag(|| format!("in flight: {}", OPS.pending()));

    let sem = Arc::new(Semphore::new(p.init));
    let init = p.init;
    let mut actors: Vec<Actor> = Vec::new();
    for (ai, (ctx, ops)) in p.actors.iter().cloned().enumerate() {
        let sem = sem.clone();
        let name = format!("actor{}", ai);
        let nm = name.clone();
        actors.push(rt::spawn_actor(ctx, &name, move || {
            for (k, op) in ops.iter().enumerate() {
                match op {
                    SOp::Dally(n) => rt::dally(*n),
                    SOp::Post => {
                        POSTS_INV.fetch_add(1, Ordering::Relaxed);
                        sem.post();
                    }
                    SOp::TryWait => {
                        if sem.try_wait() {
                            SUCC.fetch_add(1, Ordering::Relaxed);
                            check_online(init, &nm);
                        }
                    }
                    SOp::Wait => {
                        let o = OPS.begin(format!("{} op{} wait()", nm, k));
                        sem.wait();
                        o.done();
                        SUCC.fetch_add(1, Ordering::Relaxed);
                        check_online(init, &nm);
                    }
                    SOp::WaitTimeout(d) => {
                        let o = OPS.begin(format!("{} op{} wait_timeout({})", nm, k, d));
                        let t0 = engine::now();
                        let ok = sem.wait_timeout(Duration::from_nanos(*d));
                        let t1 = engine::now();
                        o.done();
                        if ok {
                            SUCC.fetch_add(1, Ordering::Relaxed);
                            check_online(init, &nm);
                        } else if t1 < t0 + d {
                            violation(&format!("{}: wait_timeout({} ns) timed out after {} ns", nm, d, t1 - t0));
                        }
                    }
                }
            }
        }));
    }
    let n_script = actors.len();
    {
        let sem = sem.clone();
        let n = p.feeder_posts;
        actors.push(rt::spawn_actor(p.feeder_ctx, "feeder", move || {
            for _ in 0..n {
                rt::dally(2);
                POSTS_INV.fetch_add(1, Ordering::Relaxed);
                sem.post();
            }
        }));
    }
    let cancel_flag = Arc::new(AtomicBool::new(false));
    if let Some((ai, k)) = p.cancel {
        let co = actors[ai].co.as_ref().unwrap().coroutine().clone();
        actors.push(rt::spawn_canceller(vec![(k, co, cancel_flag.clone())]));
    }
    let deadline = engine::now() + 80_000_000;
    engine::set_vt_limit(deadline + 1_000_000);
    rt::await_actors(&actors, deadline);
    for ai in 0..n_script {
        let target = p.cancel.map(|c| c.0 == ai).unwrap_or(false);
        rt::expect_end(&mut actors[ai], target);
    }
    // quiescent: value == initial + posts - successful waits
    let posts = POSTS_INV.load(Ordering::Relaxed);
    let succ = SUCC.load(Ordering::Relaxed);
    let want = init as i64 + posts - succ;
    let got = sem.get_value() as i64;
    if want < 0 || got != want {
        violation(&format!(
            "semaphore value is {} at quiescence, expected initial {} + {} posts - {} successful waits = {} (permit lost or duplicated)",
            got, init, posts, succ, want
        ));
    }
    // and the permits are usable
    for _ in 0..want {
        if !sem.try_wait() {
            violation("a permit counted by get_value() cannot be taken");
        }
    }
    if sem.try_wait() {
        violation("try_wait succeeded on an exhausted semaphore");
    }
    engine::finish_ok()
}

// ------------------------------------------------------------------------------------------------
// SyncFlag
// ------------------------------------------------------------------------------------------------

#[derive(Debug, Clone)]
enum FOp {
    Wait,
    WaitTimeout(u64),
    Check,
    Dally(u32),
}

#[derive(Debug)]
struct ParamsF {
    rt: RtCfg,
    actors: Vec<(Ctx, Vec<FOp>)>,
    firer_ctx: Ctx,
    fire_dally: u32,
    fire_delay_ns: u64,
    fire_twice: bool,
    cancel: Option<(usize, u32)>,
}

fn gen_f(seed: u64) -> ParamsF {
    let mut r = gen_rng(seed);
    let rt = RtCfg::gen(&mut r, 3);
    let n = r.range(1, 4) as usize;
    let mut actors = Vec::new();
    for _ in 0..n {
        let ctx = Ctx::gen(&mut r);
        let k = r.range(1, 3) as usize;
        let ops = (0..k)
            .map(|_| match r.below(100) {
                0..=39 => FOp::Wait,
                40..=69 => FOp::WaitTimeout(*r.pick(&DURS)),
                70..=84 => FOp::Check,
                _ => FOp::Dally(r.below(10) as u32),
            })
            .collect();
        actors.push((ctx, ops));
    }
    let cos: Vec<usize> = (0..n).filter(|&i| actors[i].0 == Ctx::Co).collect();
    let cancel = if !cos.is_empty() && r.chance(1, 4) {
        Some((*r.pick(&cos), r.below(50) as u32))
    } else {
        None
    };
    ParamsF {
        rt,
        actors,
        firer_ctx: Ctx::gen(&mut r),
        fire_dally: r.below(25) as u32,
        fire_delay_ns: if r.chance(1, 2) { *r.pick(&[500_000u64, 1_000_000, 1_500_000, 3_000_000]) } else { 0 },
        fire_twice: r.chance(1, 5),
        cancel,
    }
}

static FIRE_RET_VT: AtomicU64 = AtomicU64::new(u64::MAX);
static FIRE_RETURNED: AtomicBool = AtomicBool::new(false);

pub fn run_flag(seed: u64, mut ov: impl FnMut(&mut engine::Cfg)) -> ! {
    let p = gen_f(seed);
    let mut cfg = swarm_cfg(seed, &swarm());
    ov(&mut cfg);
    engine::init(cfg);
    engine::set_extra("params", engine::json_str(&format!("{:?}", p)));
    rt::boot(&p.rt);
    engine::set_diag(|| format!("in flight: {}", OPS.pending()));

    let flag = Arc::new(SyncFlag::new());
    let mut actors: Vec<Actor> = Vec::new();
    for (ai, (ctx, ops)) in p.actors.iter().cloned().enumerate() {
        let flag = flag.clone();
        let name = format!("actor{}", ai);
        let nm = name.clone();
        actors.push(rt::spawn_actor(ctx, &name, move || {
            for (k, op) in ops.iter().enumerate() {
                match op {
                    FOp::Dally(n) => rt::dally(*n),
                    FOp::Check => {
                        let fired_before = FIRE_RETURNED.load(Ordering::Relaxed);
                        let f = flag.is_fired();
                        if fired_before && !f {
                            violation(&format!("{}: is_fired() read false after fire() had returned", nm));
                        }
                    }
                    FOp::Wait => {
                        let o = OPS.begin(format!("{} op{} SyncFlag::wait()", nm, k));
                        flag.wait();
                        o.done();
                        if !flag.is_fired() {
                            violation(&format!("{}: wait() returned but the flag reads un-fired", nm));
                        }
                    }
                    FOp::WaitTimeout(d) => {
                        let o = OPS.begin(format!("{} op{} SyncFlag::wait_timeout({})", nm, k, d));
                        let fired_before = FIRE_RETURNED.load(Ordering::Relaxed);
                        let t0 = engine::now();
                        let ok = flag.wait_timeout(Duration::from_nanos(*d));
                        let t1 = engine::now();
                        o.done();
                        if !ok {
                            if fired_before {
                                violation(&format!("{}: wait_timeout returned false although fire() had returned before the call", nm));
                            }
                            if t1 < t0 + d {
                                violation(&format!("{}: SyncFlag::wait_timeout({} ns) timed out after {} ns", nm, d, t1 - t0));
                            }
                            let fr = FIRE_RET_VT.load(Ordering::Relaxed);
                            if fr != u64::MAX && fr < t0 + d {
                                violation(&format!(
                                    "{}: wait_timeout({} ns) called at {} timed out although fire() had returned at {}",
                                    nm, d, t0, fr
                                ));
                            }
                        } else if !flag.is_fired() {
                            violation(&format!("{}: wait_timeout returned true but the flag reads un-fired", nm));
                        }
                    }
                }
            }
        }));
    }
    let n_script = actors.len();
    {
        let flag = flag.clone();
        let (dally, delay, twice) = (p.fire_dally, p.fire_delay_ns, p.fire_twice);
        actors.push(rt::spawn_actor(p.firer_ctx, "firer", move || {
            rt::dally(dally);
            if delay > 0 {
                rt::nap(delay);
            }
            flag.fire();
            FIRE_RET_VT.store(engine::now(), Ordering::Relaxed);
            FIRE_RETURNED.store(true, Ordering::Relaxed);
            if twice {
                flag.fire();
            }
            for _ in 0..4 {
                if !flag.is_fired() {
                    violation("firer: is_fired() read false after fire() returned");
                }
                rt::relax();
            }
        }));
    }
    let cancel_flag = Arc::new(AtomicBool::new(false));
    if let Some((ai, k)) = p.cancel {
        let co = actors[ai].co.as_ref().unwrap().coroutine().clone();
        actors.push(rt::spawn_canceller(vec![(k, co, cancel_flag.clone())]));
    }
    let deadline = engine::now() + 60_000_000;
    engine::set_vt_limit(deadline + 1_000_000);
    rt::await_actors(&actors, deadline);
    for ai in 0..n_script {
        let target = p.cancel.map(|c| c.0 == ai).unwrap_or(false);
        rt::expect_end(&mut actors[ai], target);
    }
    if !flag.is_fired() {
        violation("flag reads un-fired at the end");
    }
    if !flag.wait_timeout(Duration::from_millis(1)) {
        violation("a later wait on a fired flag timed out");
    }
    engine::finish_ok()
}
