//! C16 — cqueue consumes each event once; select! returns a fully run arm

use crate::engine::{self, violation};
use crate::oracle::Scripted;
use crate::rt::{self, Actor, Ctx, RtCfg, OPS};
use crate::{gen_rng, swarm_cfg, Swarm};
use may::coroutine;
use may::cqueue::{self, PollError};
use may::sync::mpsc;
use std::sync::atomic::{AtomicU32, Ordering};
use std::sync::Arc;
use std::time::Duration;

pub fn swarm() -> Swarm {
    Swarm {
        alloc_modes: true,
        stalls: true,
        stall_max_ns: 2_000_000,
        est_len: 6000,
        max_steps: 800_000,
        ..Default::default()
    }
}

const MAXA: usize = 4;
const MAXE: usize = 4;
#[allow(clippy::declare_interior_mutable_const)]
const Z: AtomicU32 = AtomicU32::new(0);
#[allow(clippy::declare_interior_mutable_const)]
const ZR: [AtomicU32; MAXE] = [Z; MAXE];
static TOP: [[AtomicU32; MAXE]; MAXA] = [ZR; MAXA];
static BOTTOM: [[AtomicU32; MAXE]; MAXA] = [ZR; MAXA];
static POLLED: [[AtomicU32; MAXE]; MAXA] = [ZR; MAXA];
static ARM_RUNNING: AtomicU32 = AtomicU32::new(0);
static ARM_STARTED: AtomicU32 = AtomicU32::new(0);
static ARM_ENDED: AtomicU32 = AtomicU32::new(0);
/// bit i: arm i has raised its scripted panic (set right before the panic)
static ARM_PANICKED: AtomicU32 = AtomicU32::new(0);

struct ArmGuard;
impl ArmGuard {
    fn new() -> ArmGuard {
        ARM_RUNNING.fetch_add(1, Ordering::Relaxed);
        ARM_STARTED.fetch_add(1, Ordering::Relaxed);
        ArmGuard
    }
}
impl Drop for ArmGuard {
    fn drop(&mut self) {
        ARM_RUNNING.fetch_sub(1, Ordering::Relaxed);
        rt::bump(&ARM_ENDED);
    }
}

#[derive(Debug, Clone)]
enum Top {
    Yield,
    Sleep(u64),
    Recv,
    Nothing,
}

#[derive(Debug, Clone)]
struct Arm {
    events: Vec<Top>,
    /// panic in the top (0) or bottom (1) half of this event index
    panic_at: Option<(usize, u8)>,
}

#[derive(Debug)]
struct Params {
    rt: RtCfg,
    poller: Ctx,
    arms: Vec<Arm>,
    poll_timeout: Option<u64>,
    /// leave the scope after this many events (the drop drains the rest), None = until Finished
    leave_after: Option<usize>,
    remove: Option<(usize, usize)>, // (arm, after this many polls)
    feeder_delay: u64,
    /// a coroutine poller is cancelled: (aimed at the moment it leaves the scope and the drop
    /// drains, controller yield points before the cancel)
    owner_cancel: Option<(bool, u32)>,
}

fn gen(seed: u64) -> Params {
    let mut r = gen_rng(seed);
    let rt = RtCfg::gen(&mut r, 3);
    let n = r.range(1, 4) as usize;
    let arms: Vec<Arm> = (0..n)
        .map(|_| {
            let k = r.range(1, 3) as usize;
            let events: Vec<Top> = (0..k)
                .map(|_| match r.below(10) {
                    0..=2 => Top::Yield,
                    3..=4 => Top::Sleep(*r.pick(&[0u64, 1_000, 500_000, 1_000_000, 2_000_000])),
                    5..=7 => Top::Recv,
                    _ => Top::Nothing,
                })
                .collect();
            let panic_at = if r.chance(1, 5) { Some((r.below(k as u64) as usize, r.below(2) as u8)) } else { None };
            Arm { events, panic_at }
        })
        .collect();
    let mut p = Params {
        rt,
        poller: Ctx::gen(&mut r),
        // short timeouts make the poller loop: it is then often inside poll() at the very moment a
        // select coroutine ends
        poll_timeout: if r.chance(1, 2) { Some(*r.pick(&[1_000u64, 1_000, 20_000, 500_000, 1_000_000, 1_500_000, 5_000_000])) } else { None },
        leave_after: if r.chance(1, 3) { Some(r.below(4) as usize) } else { None },
        remove: if r.chance(1, 5) { Some((r.below(n as u64) as usize, r.below(3) as usize)) } else { None },
        feeder_delay: *r.pick(&[0u64, 300_000, 1_000_000]),
        arms,
        owner_cancel: None,
    };
    // drawn last: everything above is the same as before this field existed
    if p.poller == Ctx::Co && r.chance(1, 3) {
        p.owner_cancel = Some((r.chance(1, 2), r.below(60) as u32));
    }
    p
}

/// the poller is inside `poll` (a bottom half is run by the poller, inside poll or inside the
/// drain of Cqueue::drop)
static IN_POLL: std::sync::atomic::AtomicBool = std::sync::atomic::AtomicBool::new(false);
static OWNER_STARTED: std::sync::atomic::AtomicBool = std::sync::atomic::AtomicBool::new(false);
static OWNER_LEAVING: std::sync::atomic::AtomicBool = std::sync::atomic::AtomicBool::new(false);

fn is_cancel_payload(e: &(dyn std::any::Any + Send)) -> bool {
    matches!(e.downcast_ref::<generator::Error>(), Some(generator::Error::Cancel))
}

/// a thread that cancels the owner of a cqueue / select! some yield points after a flag is up
fn spawn_owner_canceller(owner: &Actor, aimed: bool, at: u32) -> Actor {
    let co = owner.co.as_ref().expect("coroutine owner").coroutine().clone();
    let done = owner.done.clone();
    rt::spawn_actor(Ctx::Thread, "ctl", move || {
        // both flags are raised at the latest when the owner is through (it may leave by a panic)
        let flag = if aimed { &OWNER_LEAVING } else { &OWNER_STARTED };
        rt::wait_flag(flag, usize::MAX);
        if done.load(Ordering::Relaxed) {
            return;
        }
        for _ in 0..at {
            engine::yield_point();
        }
        unsafe { co.cancel() };
        // every other controller cancels a second time a little later: inside Cqueue::drop the
        // owner waits with its cancel disabled and every further cancel is a spurious wake-up
        if at % 2 == 1 {
            for _ in 0..(at % 23) {
                engine::yield_point();
            }
            unsafe { co.cancel() };
        }
    })
}

pub fn run_cqueue(seed: u64, mut ov: impl FnMut(&mut engine::Cfg)) -> ! {
    let p = gen(seed);
    let mut cfg = swarm_cfg(seed, &swarm());
    ov(&mut cfg);
    engine::init(cfg);
    engine::set_extra("params", engine::json_str(&format!("{:?}", p)));
    rt::boot(&p.rt);
    engine::set_diag(|| format!("in flight: {}", OPS.pending()));

    let n_arms = p.arms.len();
    // one channel per arm for the Recv tops, fed by a helper
    let mut txs = Vec::new();
    let mut rxs = Vec::new();
    for _ in 0..n_arms {
        let (t, r) = mpsc::channel::<u32>();
        txs.push(t);
        rxs.push(Some(r));
    }
    let arms = Arc::new(p.arms.clone());
    let any_panic = p.arms.iter().any(|a| a.panic_at.is_some());
    let (poll_timeout, leave_after, remove) = (p.poll_timeout, p.leave_after, p.remove);
    let outcome: Arc<std::sync::Mutex<Option<Result<(), String>>>> = Arc::new(std::sync::Mutex::new(None));
    let oc = outcome.clone();
    let arms2 = arms.clone();
    let mut rx_slots = rxs;
    let poller_fn = move || {
        let r = std::panic::catch_unwind(std::panic::AssertUnwindSafe(|| {
            let o = OPS.begin("poller inside cqueue::scope".to_string());
            rt::set_flag(&OWNER_STARTED);
            cqueue::scope(|cq| {
                let mut selectors = Vec::new();
                for (i, arm) in arms2.iter().cloned().enumerate() {
                    let rx = rx_slots[i].take().unwrap();
                    let s = unsafe {
                        cq.add(i, move |es| {
                            let _g = ArmGuard::new();
                            for (e, top) in arm.events.iter().enumerate() {
                                match top {
                                    Top::Yield => coroutine::yield_now(),
                                    Top::Sleep(ns) => coroutine::sleep(Duration::from_nanos(*ns)),
                                    Top::Recv => {
                                        let _ = rx.recv();
                                    }
                                    Top::Nothing => {}
                                }
                                if arm.panic_at == Some((e, 0)) {
                                    ARM_PANICKED.fetch_or(1 << i, Ordering::Relaxed);
                                    std::panic::panic_any(Scripted(i as u32));
                                }
                                TOP[i][e].fetch_add(1, Ordering::Relaxed);
                                es.send(e);
                                // ---- bottom half
                                // it is the poller that runs it: inside a poll, or inside the drain
                                // when the scope is left (also when it is left by a panic)
                                if !IN_POLL.load(Ordering::Relaxed) && !OWNER_LEAVING.load(Ordering::Relaxed) {
                                    violation(&format!(
                                        "arm {} event {}: send() returned and the bottom half runs although the poller is neither inside poll() nor draining: the event was never queued / consumed",
                                        i, e
                                    ));
                                }
                                if TOP[i][e].load(Ordering::Relaxed) != 1 {
                                    violation(&format!("arm {} event {}: bottom half runs without exactly one top half", i, e));
                                }
                                if BOTTOM[i][e].fetch_add(1, Ordering::Relaxed) != 0 {
                                    violation(&format!("arm {} event {}: bottom half ran twice", i, e));
                                }
                                if arm.panic_at == Some((e, 1)) {
                                    ARM_PANICKED.fetch_or(1 << i, Ordering::Relaxed);
                                    std::panic::panic_any(Scripted(i as u32));
                                }
                            }
                        })
                    };
                    selectors.push(Some(s));
                }
                let mut polls = 0usize;
                let mut events = 0usize;
                let scope_start = engine::now();
                loop {
                    if let Some((a, after)) = remove {
                        if polls == after {
                            if let Some(s) = selectors[a].take() {
                                s.remove();
                            }
                        }
                    }
                    if let Some(l) = leave_after {
                        if events >= l {
                            break;
                        }
                    }
                    polls += 1;
                    let t0 = engine::now();
                    IN_POLL.store(true, Ordering::Relaxed);
                    let r = cq.poll(poll_timeout.map(Duration::from_nanos));
                    IN_POLL.store(false, Ordering::Relaxed);
                    let t1 = engine::now();
                    match r {
                        Ok(ev) => {
                            events += 1;
                            let (i, e) = (ev.token, ev.extra);
                            if i >= n_arms || e >= MAXE {
                                violation(&format!("poll returned an event (token {}, extra {}) nobody sent", i, e));
                            }
                            if POLLED[i][e].fetch_add(1, Ordering::Relaxed) != 0 {
                                violation(&format!("arm {} event {} returned by poll twice", i, e));
                            }
                            if TOP[i][e].load(Ordering::Relaxed) != 1 {
                                violation(&format!("poll returned arm {} event {} whose top half has not run", i, e));
                            }
                            let panics_in_bottom = arms2[i].panic_at == Some((e, 1));
                            if BOTTOM[i][e].load(Ordering::Relaxed) != 1 && !panics_in_bottom {
                                violation(&format!(
                                    "poll returned arm {} event {} but its bottom half has not run at that moment",
                                    i, e
                                ));
                            }
                        }
                        Err(PollError::Timeout) => {
                            let d = poll_timeout.unwrap_or(0);
                            if poll_timeout.is_none() {
                                violation("poll(None) reported Timeout");
                            }
                            if t1 < t0 + d {
                                violation(&format!("poll({} ns) reported Timeout after {} ns", d, t1 - t0));
                            }
                            if engine::now() > scope_start + 150_000_000 {
                                violation("poll keeps timing out for 150 ms of virtual time, the select coroutines never finish");
                            }
                        }
                        Err(PollError::Finished) => {
                            let st = ARM_STARTED.load(Ordering::Relaxed);
                            let en = ARM_ENDED.load(Ordering::Relaxed);
                            if en != n_arms as u32 || st != en {
                                violation(&format!(
                                    "poll reported Finished but only {} of {} select coroutines have ended",
                                    en, n_arms
                                ));
                            }
                            // the end of a select coroutine is an event too (it carries the panic):
                            // it is consumed by a poll, which re-raises the panic there and then.
                            // Finished after a panic means that end was never consumed
                            if ARM_PANICKED.load(Ordering::Relaxed) != 0 && remove.is_none() {
                                violation("poll reported Finished although a select coroutine has panicked: its end (which carries the panic) was not consumed by any poll");
                            }
                            break;
                        }
                    }
                }
                rt::set_flag(&OWNER_LEAVING);
            });
            o.done();
            // the scope is left: no select coroutine may be executing any more
            let running = ARM_RUNNING.load(Ordering::Relaxed);
            if running != 0 {
                violation(&format!("cqueue::scope returned while {} select coroutines are still executing", running));
            }
        }));
        rt::set_flag(&OWNER_STARTED);
        rt::set_flag(&OWNER_LEAVING);
        let res = match r {
            Ok(()) => Ok(()),
            Err(e) => {
                let running = ARM_RUNNING.load(Ordering::Relaxed);
                if running != 0 {
                    violation(&format!("cqueue::scope unwound while {} select coroutines are still executing", running));
                }
                match e.downcast_ref::<Scripted>() {
                    Some(s) => Err(format!("scripted {}", s.0)),
                    None if is_cancel_payload(&*e) => Err("cancel".to_string()),
                    None => Err(crate::panic_msg(&e)),
                }
            }
        };
        *oc.lock().unwrap() = Some(res);
    };
    let mut actors: Vec<Actor> = vec![rt::spawn_actor(p.poller, "poller", poller_fn)];
    let ctl = p.owner_cancel.map(|(aimed, at)| spawn_owner_canceller(&actors[0], aimed, at));
    {
        // the feeder gives every Recv top its value
        let delay = p.feeder_delay;
        let counts: Vec<usize> = p.arms.iter().map(|a| a.events.iter().filter(|t| matches!(t, Top::Recv)).count()).collect();
        actors.push(rt::spawn_actor(Ctx::Thread, "feeder", move || {
            for round in 0..MAXE {
                for (i, tx) in txs.iter().enumerate() {
                    if round < counts[i] {
                        if delay > 0 {
                            engine::sleep(delay);
                        }
                        let _ = tx.send(round as u32);
                    }
                }
            }
            // keep the senders alive until the end: a disconnect would end the Recv tops early
            engine::sleep(50_000_000);
        }));
    }
    let deadline = engine::now() + 200_000_000;
    engine::set_vt_limit(deadline + 1_000_000);
    rt::await_actors(&actors[..1], deadline);
    rt::expect_end(&mut actors[0], p.owner_cancel.is_some());
    if let Some(c) = ctl.as_ref() {
        rt::await_actors(std::slice::from_ref(c), deadline);
    }
    let out = outcome.lock().unwrap().clone();
    match out {
        Some(Ok(())) => {
            if ARM_PANICKED.load(Ordering::Relaxed) != 0 && p.remove.is_none() {
                violation("a select coroutine panicked but cqueue::scope ended normally: the panic was swallowed");
            }
        }
        // the cancelled owner left the scope by its cancel (checked above: only after every
        // select coroutine had ended)
        Some(Err(m)) if m == "cancel" && p.owner_cancel.is_some() => {}
        Some(Err(m)) => {
            if !(any_panic && m.starts_with("scripted")) {
                violation(&format!("the poller ended with an unexpected panic: {}", m));
            }
        }
        None => violation("poller recorded no outcome"),
    }
    // every event that was consumed by a poll had its halves run exactly once; bottoms never
    // ran without their top (checked inline); counts are 0 or 1
    for i in 0..n_arms {
        for e in 0..MAXE {
            let (t, b, pl) = (
                TOP[i][e].load(Ordering::Relaxed),
                BOTTOM[i][e].load(Ordering::Relaxed),
                POLLED[i][e].load(Ordering::Relaxed),
            );
            if t > 1 || b > 1 || pl > 1 || b > t {
                violation(&format!("arm {} event {}: top ran {} times, bottom {} times, returned by poll {} times", i, e, t, b, pl));
            }
        }
    }
    engine::finish_ok()
}

// ------------------------------------------------------------------------------------------------
// select!: arms firing at (nearly) the same instant
// ------------------------------------------------------------------------------------------------

#[derive(Debug)]
struct ParamsSel {
    rt: RtCfg,
    owner: Ctx,
    tops: Vec<Top>,
    panic_arm: Option<usize>,
    owner_cancel: Option<u32>,
}

fn gen_sel(seed: u64) -> ParamsSel {
    let mut r = gen_rng(seed);
    let rt = RtCfg::gen(&mut r, 3);
    let n = r.range(2, 4) as usize;
    let same = *r.pick(&[0u64, 1_000, 1_000_000]);
    let tops = (0..n)
        .map(|_| match r.below(10) {
            0..=4 => Top::Sleep(if r.chance(2, 3) { same } else { *r.pick(&[500_000u64, 1_000_000, 2_000_000]) }),
            5..=7 => Top::Yield,
            _ => Top::Nothing,
        })
        .collect();
    let mut p = ParamsSel { rt, owner: Ctx::gen(&mut r), tops, panic_arm: if r.chance(1, 8) { Some(r.below(n as u64) as usize) } else { None }, owner_cancel: None };
    // drawn last: everything above is the same as before this field existed
    if p.owner == Ctx::Co && r.chance(1, 3) {
        p.owner_cancel = Some(r.below(80) as u32);
    }
    p
}

fn sel_top(i: usize, t: &Top, panic_arm: Option<usize>) -> ArmGuard {
    let g = ArmGuard::new();
    match t {
        Top::Yield => coroutine::yield_now(),
        Top::Sleep(ns) => coroutine::sleep(Duration::from_nanos(*ns)),
        _ => {}
    }
    if panic_arm == Some(i) {
        std::panic::panic_any(Scripted(i as u32));
    }
    TOP[i][0].fetch_add(1, Ordering::Relaxed);
    g
}

fn sel_bottom(i: usize) {
    if TOP[i][0].load(Ordering::Relaxed) != 1 {
        violation(&format!("select arm {}: bottom half runs without its top half", i));
    }
    if BOTTOM[i][0].fetch_add(1, Ordering::Relaxed) != 0 {
        violation(&format!("select arm {}: bottom half ran twice", i));
    }
}

pub fn run_select(seed: u64, mut ov: impl FnMut(&mut engine::Cfg)) -> ! {
    let p = gen_sel(seed);
    let mut cfg = swarm_cfg(seed, &swarm());
    ov(&mut cfg);
    engine::init(cfg);
    engine::set_extra("params", engine::json_str(&format!("{:?}", p)));
    rt::boot(&p.rt);
    engine::set_diag(|| format!("in flight: {}", OPS.pending()));

    let tops = p.tops.clone();
    let pa = p.panic_arm;
    let outcome: Arc<std::sync::Mutex<Option<Result<usize, String>>>> = Arc::new(std::sync::Mutex::new(None));
    let oc = outcome.clone();
    let owner_fn = move || {
        let n = tops.len();
        let none = Top::Nothing;
        let t = |i: usize| tops.get(i).unwrap_or(&none);
        let r = std::panic::catch_unwind(std::panic::AssertUnwindSafe(|| {
            let o = OPS.begin("owner inside select!".to_string());
            rt::set_flag(&OWNER_STARTED);
            let token = match n {
                2 => may::select!(
                    _g = sel_top(0, t(0), pa) => sel_bottom(0),
                    _g = sel_top(1, t(1), pa) => sel_bottom(1)
                ),
                3 => may::select!(
                    _g = sel_top(0, t(0), pa) => sel_bottom(0),
                    _g = sel_top(1, t(1), pa) => sel_bottom(1),
                    _g = sel_top(2, t(2), pa) => sel_bottom(2)
                ),
                _ => may::select!(
                    _g = sel_top(0, t(0), pa) => sel_bottom(0),
                    _g = sel_top(1, t(1), pa) => sel_bottom(1),
                    _g = sel_top(2, t(2), pa) => sel_bottom(2),
                    _g = sel_top(3, t(3), pa) => sel_bottom(3)
                ),
            };
            o.done();
            token
        }));
        let running = ARM_RUNNING.load(Ordering::Relaxed);
        if running != 0 {
            violation(&format!("select! returned (or unwound) while {} of its arms are still executing", running));
        }
        rt::set_flag(&OWNER_STARTED);
        rt::set_flag(&OWNER_LEAVING);
        let res = match r {
            Ok(token) => {
                if token >= n {
                    violation(&format!("select! returned the token {} with {} arms", token, n));
                }
                if TOP[token][0].load(Ordering::Relaxed) != 1 || BOTTOM[token][0].load(Ordering::Relaxed) != 1 {
                    violation(&format!(
                        "select! returned token {} but that arm's top ran {} times and its bottom {} times",
                        token,
                        TOP[token][0].load(Ordering::Relaxed),
                        BOTTOM[token][0].load(Ordering::Relaxed)
                    ));
                }
                Ok(token)
            }
            Err(e) => match e.downcast_ref::<Scripted>() {
                Some(s) => Err(format!("scripted {}", s.0)),
                None if is_cancel_payload(&*e) => Err("cancel".to_string()),
                None => Err(crate::panic_msg(&e)),
            },
        };
        *oc.lock().unwrap() = Some(res);
    };
    let mut actors: Vec<Actor> = vec![rt::spawn_actor(p.owner, "owner", owner_fn)];
    if let Some(at) = p.owner_cancel {
        let c = spawn_owner_canceller(&actors[0], false, at);
        actors.push(c);
    }
    let deadline = engine::now() + 100_000_000;
    engine::set_vt_limit(deadline + 1_000_000);
    rt::await_actors(&actors, deadline);
    rt::expect_end(&mut actors[0], p.owner_cancel.is_some());
    let out = outcome.lock().unwrap().clone();
    match out {
        Some(Ok(_)) => {}
        Some(Err(m)) if m == "cancel" && p.owner_cancel.is_some() => {}
        Some(Err(m)) => {
            let ok = p.panic_arm.map(|a| m == format!("scripted {}", a)).unwrap_or(false);
            if !ok {
                violation(&format!("select! owner ended with an unexpected panic: {}", m));
            }
        }
        None => violation("owner recorded no outcome"),
    }
    for i in 0..p.tops.len() {
        let (t, b) = (TOP[i][0].load(Ordering::Relaxed), BOTTOM[i][0].load(Ordering::Relaxed));
        if t > 1 || b > t {
            violation(&format!("select arm {}: top ran {} times, bottom {} times", i, t, b));
        }
    }
    engine::finish_ok()
}
