//! C13 — a panic in one coroutine stays in that coroutine; lock poisoning follows std

use crate::engine::{self, violation};
use crate::oracle::Scripted;
use crate::rt::{self, Ctx, RtCfg, OPS};
use crate::{gen_rng, swarm_cfg, Swarm};
use may::coroutine::{self, JoinHandle};
use may::sync::{mpsc, Mutex, RwLock};
use std::sync::atomic::{AtomicBool, AtomicU32, AtomicU64, Ordering};
use std::sync::Arc;
use std::time::Duration;

pub fn swarm() -> Swarm {
    Swarm {
        alloc_modes: true,
        stalls: true,
        stall_max_ns: 2_000_000,
        // a worker held up inside Park::subscribe / Sleep::subscribe while the coroutine it has
        // just registered is resumed elsewhere and runs to its end (detached: nobody else keeps
        // its handle alive)
        stall_focus: &["src/park.rs", "src/sleep.rs", "src/cancel.rs"],
        est_len: 6000,
        max_steps: 800_000,
        ..Default::default()
    }
}

#[derive(Debug, Clone, PartialEq)]
enum Step {
    Yield,
    Sleep(u64),
    LockInc,
    WriteInc,
    ReadCheck,
    Send,
    /// a scoped child that panics: the scope re-raises it in this coroutine
    ScopeChildPanics,
}

#[derive(Debug, Clone, Copy, PartialEq)]
enum Holding {
    Nothing,
    Mutex,
    RwWrite,
}

#[derive(Debug, Clone, PartialEq)]
enum Fate {
    Normal,
    /// panic before executing step k, optionally while holding a guard
    PanicAt(usize, Holding),
    /// cancelled by the controller after this many of its yields; holds a guard across its
    /// blocking steps if asked
    Cancel(u32, Holding),
}

#[derive(Debug, Clone)]
struct Spec {
    id: u32,
    steps: Vec<Step>,
    fate: Fate,
    custom_stack: bool,
    /// the JoinHandle is dropped right after the spawn (nobody collects the outcome)
    detached: bool,
}

#[derive(Debug)]
struct Params {
    rt: RtCfg,
    specs: Vec<Spec>,
    successors: usize,
    /// successors on the reused stacks end by a cancel unwind (their join must say Cancel)
    cancel_successors: bool,
}

fn gen(seed: u64) -> Params {
    let mut r = gen_rng(seed);
    let mut rt = RtCfg::gen(&mut r, 3);
    rt.pool_cap = *r.pick(&[1usize, 1, 2]);
    let n = r.range(3, 8) as usize;
    let specs = (0..n)
        .map(|i| {
            let k = r.range(1, 5) as usize;
            let steps: Vec<Step> = (0..k)
                .map(|_| match r.below(100) {
                    0..=24 => Step::Yield,
                    25..=34 => Step::Sleep(*r.pick(&[1_000u64, 300_000, 1_000_000])),
                    35..=59 => Step::LockInc,
                    60..=74 => Step::WriteInc,
                    75..=84 => Step::ReadCheck,
                    85..=94 => Step::Send,
                    _ => Step::ScopeChildPanics,
                })
                .collect();
            let fate = match r.below(10) {
                0..=2 => Fate::PanicAt(r.below(k as u64 + 1) as usize, *r.pick(&[Holding::Nothing, Holding::Mutex, Holding::RwWrite])),
                3 => Fate::Cancel(r.below(50) as u32, *r.pick(&[Holding::Nothing, Holding::Mutex, Holding::RwWrite])),
                _ => Fate::Normal,
            };
            let detached = !matches!(fate, Fate::Cancel(..)) && r.chance(1, 4);
            Spec { id: i as u32, steps, fate, custom_stack: r.chance(1, 8), detached }
        })
        .collect();
    Params { rt, specs, successors: r.range(1, 4) as usize, cancel_successors: r.chance(1, 2) }
}

struct Shared {
    m: Mutex<u64>,
    rw: RwLock<u64>,
    m_incs: AtomicU64,
    rw_incs: AtomicU64,
    m_panicked_holding: AtomicBool,
    rw_panicked_holding: AtomicBool,
    sent: AtomicU32,
}

fn lock_inc(sh: &Shared) {
    let mut g = match sh.m.lock() {
        Ok(g) => {
            // the flag is set by a holder while it holds the lock, right before it panics: whoever
            // gets the lock afterwards must be told (the guard's drop poisons before it releases)
            if sh.m_panicked_holding.load(Ordering::Relaxed) {
                violation("Mutex::lock returned Ok(guard) although an earlier holder panicked while holding the guard: the lock was passed on before it was poisoned");
            }
            g
        }
        Err(e) => e.into_inner(),
    };
    let v = *g;
    engine::point();
    *g = v + 1;
    sh.m_incs.fetch_add(1, Ordering::Relaxed);
}

fn write_inc(sh: &Shared) {
    let mut g = match sh.rw.write() {
        Ok(g) => {
            if sh.rw_panicked_holding.load(Ordering::Relaxed) {
                violation("RwLock::write returned Ok(guard) although an earlier writer panicked while holding the guard: the lock was passed on before it was poisoned");
            }
            g
        }
        Err(e) => e.into_inner(),
    };
    let v = *g;
    engine::point();
    *g = v + 1;
    sh.rw_incs.fetch_add(1, Ordering::Relaxed);
}

fn body(spec: &Spec, sh: &Arc<Shared>, tx: &mpsc::Sender<u32>) -> u32 {
    let id = spec.id;
    // a cancel target may hold a guard across all its blocking steps
    let _held_m;
    let _held_rw;
    if let Fate::Cancel(_, h) = spec.fate {
        match h {
            Holding::Mutex => _held_m = Some(sh.m.lock().unwrap_or_else(|e| e.into_inner())),
            Holding::RwWrite => _held_rw = Some(sh.rw.write().unwrap_or_else(|e| e.into_inner())),
            Holding::Nothing => {}
        }
    }
    let holding_for_cancel = matches!(spec.fate, Fate::Cancel(_, Holding::Mutex) | Fate::Cancel(_, Holding::RwWrite));
    for (k, st) in spec.steps.iter().enumerate() {
        if let Fate::PanicAt(at, h) = spec.fate {
            if at == k {
                panic_now(id, h, sh);
            }
        }
        match st {
            Step::Yield => coroutine::yield_now(),
            Step::Sleep(ns) => coroutine::sleep(Duration::from_nanos(*ns)),
            // a coroutine that already holds a guard for its whole life does not lock again
            Step::LockInc if !holding_for_cancel => lock_inc(sh),
            Step::WriteInc if !holding_for_cancel => write_inc(sh),
            Step::ReadCheck if !holding_for_cancel => {
                let g = match sh.rw.read() {
                    Ok(g) => {
                        if sh.rw_panicked_holding.load(Ordering::Relaxed) {
                            violation("RwLock::read returned Ok(guard) although an earlier writer panicked while holding the guard: the lock was passed on before it was poisoned");
                        }
                        g
                    }
                    Err(e) => e.into_inner(),
                };
                let v = *g;
                engine::point();
                if *g != v {
                    violation(&format!("coroutine {}: data changed under a read guard", id));
                }
            }
            Step::Send => {
                sh.sent.fetch_add(1, Ordering::Relaxed);
                let _ = tx.send(id);
            }
            Step::ScopeChildPanics => {
                let r = std::panic::catch_unwind(std::panic::AssertUnwindSafe(|| {
                    coroutine::scope(|s| unsafe {
                        s.spawn(move || {
                            coroutine::yield_now();
                            std::panic::panic_any(Scripted(1000 + id));
                        });
                    });
                }));
                match r {
                    Ok(()) => violation(&format!("coroutine {}: the scoped child's panic was not re-raised in the owner", id)),
                    Err(e) => match e.downcast_ref::<Scripted>() {
                        Some(s) if s.0 == 1000 + id => {}
                        Some(s) => violation(&format!("coroutine {}: scope re-raised the payload {}", id, s.0)),
                        None => {
                            // a cancellation of the owner goes on unwinding
                            if matches!(e.downcast_ref::<generator::Error>(), Some(generator::Error::Cancel)) {
                                std::panic::resume_unwind(e);
                            }
                            violation(&format!("coroutine {}: scope raised a foreign payload: {}", id, crate::panic_msg(&e)))
                        }
                    },
                }
            }
            _ => coroutine::yield_now(),
        }
    }
    if let Fate::PanicAt(at, h) = spec.fate {
        if at >= spec.steps.len() {
            panic_now(id, h, sh);
        }
    }
    id
}

fn panic_now(id: u32, h: Holding, sh: &Arc<Shared>) -> ! {
    match h {
        Holding::Nothing => std::panic::panic_any(Scripted(id)),
        Holding::Mutex => {
            let _g = sh.m.lock().unwrap_or_else(|e| e.into_inner());
            sh.m_panicked_holding.store(true, Ordering::Relaxed);
            std::panic::panic_any(Scripted(id))
        }
        Holding::RwWrite => {
            let _g = sh.rw.write().unwrap_or_else(|e| e.into_inner());
            sh.rw_panicked_holding.store(true, Ordering::Relaxed);
            std::panic::panic_any(Scripted(id))
        }
    }
}

fn spawn_spec(spec: &Spec, sh: &Arc<Shared>, tx: &mpsc::Sender<u32>) -> JoinHandle<u32> {
    let (spec2, sh2, tx2) = (spec.clone(), sh.clone(), tx.clone());
    let f = move || body(&spec2, &sh2, &tx2);
    unsafe {
        if spec.custom_stack {
            coroutine::Builder::new().stack_size(0x6000).spawn(f).unwrap()
        } else {
            coroutine::spawn(f)
        }
    }
}

fn check_join(spec: &Spec, r: std::thread::Result<u32>) {
    let id = spec.id;
    match (&spec.fate, r) {
        (Fate::Normal, Ok(v)) | (Fate::Cancel(..), Ok(v)) => {
            if v != id {
                violation(&format!("join of coroutine {} returned {}", id, v));
            }
        }
        (Fate::PanicAt(..), Ok(_)) => violation(&format!("coroutine {} panicked but join returned Ok", id)),
        (fate, Err(e)) => {
            if let Some(s) = e.downcast_ref::<Scripted>() {
                let own = s.0 == id;
                if !(own && matches!(fate, Fate::PanicAt(..))) {
                    violation(&format!(
                        "join of coroutine {} ({:?}) delivered the panic payload {}: a panic leaked into another coroutine",
                        id, fate, s.0
                    ));
                }
            } else if matches!(e.downcast_ref::<generator::Error>(), Some(generator::Error::Cancel)) {
                if !matches!(fate, Fate::Cancel(..)) {
                    violation(&format!("coroutine {} was never cancelled but join reports Cancel", id));
                }
            } else {
                violation(&format!("join of coroutine {} delivered a foreign payload: {}", id, crate::panic_msg(&e)));
            }
        }
    }
}

pub fn run(seed: u64, mut ov: impl FnMut(&mut engine::Cfg)) -> ! {
    let p = gen(seed);
    let mut cfg = swarm_cfg(seed, &swarm());
    ov(&mut cfg);
    engine::init(cfg);
    engine::set_extra("params", engine::json_str(&format!("{:?}", p)));
    rt::boot(&p.rt);
    engine::set_diag(|| format!("in flight: {}", OPS.pending()));
    engine::set_vt_limit(engine::now() + 200_000_000);

    let sh = Arc::new(Shared {
        m: Mutex::new(0),
        rw: RwLock::new(0),
        m_incs: AtomicU64::new(0),
        rw_incs: AtomicU64::new(0),
        m_panicked_holding: AtomicBool::new(false),
        rw_panicked_holding: AtomicBool::new(false),
        sent: AtomicU32::new(0),
    });
    let (tx, rx) = mpsc::channel::<u32>();
    let mut handles: Vec<(Spec, Option<JoinHandle<u32>>, Option<Arc<AtomicBool>>)> = Vec::new();
    let mut cancels = Vec::new();
    for s in p.specs.iter() {
        if s.detached {
            // nobody will join it: its end is observed through a flag set when its closure is left
            let done = Arc::new(AtomicBool::new(false));
            let (spec2, sh2, tx2, d2) = (s.clone(), sh.clone(), tx.clone(), done.clone());
            let f = move || {
                struct G(Arc<AtomicBool>);
                impl Drop for G {
                    fn drop(&mut self) {
                        rt::set_flag(&self.0);
                    }
                }
                let _g = G(d2);
                body(&spec2, &sh2, &tx2)
            };
            drop(unsafe { coroutine::spawn(f) });
            handles.push((s.clone(), None, Some(done)));
            continue;
        }
        let h = spawn_spec(s, &sh, &tx);
        if let Fate::Cancel(k, _) = s.fate {
            cancels.push((k, h.coroutine().clone(), Arc::new(AtomicBool::new(false))));
        }
        handles.push((s.clone(), Some(h), None));
    }
    let ctl = rt::spawn_canceller(cancels);
    // join in order; after every coroutine that ended by a panic, spawn successors that reuse
    // the (small) stack pool and the same locks, and join them too
    let mut next_id = 100u32;
    for (spec, h, done) in handles {
        if let Some(h) = h {
            let o = OPS.begin(format!("join of coroutine {} {:?}", spec.id, spec.fate));
            let r = h.join();
            o.done();
            check_join(&spec, r);
        } else {
            let o = OPS.begin(format!("end of detached coroutine {} {:?}", spec.id, spec.fate));
            rt::wait_flag(&done.unwrap(), usize::MAX);
            o.done();
            // let the worker finish the unwinding and recycle the stack
            engine::sleep(50_000);
        }
        if matches!(spec.fate, Fate::PanicAt(..)) {
            for k in 0..p.successors {
                if p.cancel_successors && k % 2 == 0 {
                    // a coroutine on the recycled stack that ends by a cancel unwind: the join
                    // must report Cancel, not what its predecessor left behind
                    let id = next_id;
                    next_id += 1;
                    let s = Spec { id, steps: vec![], fate: Fate::Cancel(0, Holding::Nothing), custom_stack: false, detached: false };
                    let h = unsafe {
                        coroutine::spawn(move || loop {
                            coroutine::park();
                        })
                    };
                    rt::dally(k as u32 + 1);
                    unsafe { h.coroutine().cancel() };
                    let o = OPS.begin(format!("join of cancelled successor {}", id));
                    let r: std::thread::Result<u32> = h.join();
                    o.done();
                    if r.is_ok() {
                        violation(&format!("cancelled successor {} ended normally", id));
                    }
                    check_join(&s, r);
                    continue;
                }
                let s = Spec { id: next_id, steps: vec![Step::LockInc, Step::Yield, Step::WriteInc], fate: Fate::Normal, custom_stack: false, detached: false };
                next_id += 1;
                let h = spawn_spec(&s, &sh, &tx);
                let o = OPS.begin(format!("join of successor {}", s.id));
                let r = h.join();
                o.done();
                check_join(&s, r);
            }
        }
    }
    rt::await_actors(std::slice::from_ref(&ctl), engine::now() + 50_000_000);
    // every worker still takes work
    let mut last = Vec::new();
    for w in 0..p.rt.workers * 2 {
        let s = Spec { id: 200 + w as u32, steps: vec![Step::Yield, Step::LockInc], fate: Fate::Normal, custom_stack: false, detached: false };
        let h = unsafe { coroutine::Builder::new().id(w).spawn({
            let (s2, sh2, tx2) = (s.clone(), sh.clone(), tx.clone());
            move || {
                // std counts panics per OS thread; nothing unwinds now, so no worker may claim to
                // be panicking (it would mean that lock guards taken on it never poison)
                if std::thread::panicking() {
                    violation(&format!(
                        "worker {} reports thread::panicking() although nothing is unwinding: a coroutine was switched out / moved while it unwound, poisoning is broken on this worker",
                        w % 8
                    ));
                }
                body(&s2, &sh2, &tx2)
            }
        }).unwrap() };
        last.push((s, h));
    }
    for (s, h) in last {
        let o = OPS.begin(format!("join of late coroutine {} (worker alive?)", s.id));
        let r = h.join();
        o.done();
        check_join(&s, r);
    }
    // poisoning follows std: poisoned iff a holder panicked, and the locks are free
    let mp = sh.m_panicked_holding.load(Ordering::Relaxed);
    let rp = sh.rw_panicked_holding.load(Ordering::Relaxed);
    if sh.m.is_poisoned() != mp {
        violation(&format!(
            "Mutex::is_poisoned() is {} but a guard was dropped by a panic: {} (cancellation unwinds must not poison)",
            sh.m.is_poisoned(),
            mp
        ));
    }
    if sh.rw.is_poisoned() != rp {
        violation(&format!(
            "RwLock::is_poisoned() is {} but a write guard was dropped by a panic: {}",
            sh.rw.is_poisoned(),
            rp
        ));
    }
    match sh.m.try_lock() {
        Ok(g) => check_count(*g, &sh.m_incs, "mutex"),
        Err(std::sync::TryLockError::Poisoned(e)) => check_count(*e.into_inner(), &sh.m_incs, "mutex"),
        Err(std::sync::TryLockError::WouldBlock) => violation("the mutex was not released by the panicking / cancelled holder"),
    }
    match sh.rw.try_write() {
        Ok(g) => check_count(*g, &sh.rw_incs, "rwlock"),
        Err(std::sync::TryLockError::Poisoned(e)) => check_count(*e.into_inner(), &sh.rw_incs, "rwlock"),
        Err(std::sync::TryLockError::WouldBlock) => violation("the rwlock was not released by the panicking / cancelled holder"),
    }
    // messages sent before a panic are delivered
    drop(tx);
    let mut got = 0;
    while rx.recv().is_ok() {
        got += 1;
    }
    if got != sh.sent.load(Ordering::Relaxed) {
        violation(&format!("{} messages sent, {} received", sh.sent.load(Ordering::Relaxed), got));
    }
    engine::finish_ok()
}

fn check_count(v: u64, incs: &AtomicU64, what: &str) {
    let c = incs.load(Ordering::Relaxed);
    if v != c {
        violation(&format!("{} counter is {} after {} completed increments", what, v, c));
    }
}

// ------------------------------------------------------------------------------------------------
// detached coroutines (JoinHandle dropped at spawn) whose last blocking call is ended by another
// thread: nobody but the coroutine itself keeps its handle (park + cancel data) alive, and the
// worker that registered it may still be busy with the registration when it has already run to
// its end on another worker
// ------------------------------------------------------------------------------------------------

#[derive(Debug)]
struct ParamsD {
    rt: RtCfg,
    /// per coroutine: what it blocks in last (0 mpsc recv, 1 Mutex::lock, 2 Semphore::wait,
    /// 3 coroutine::park), steps of the waker before it acts, yields of the coroutine afterwards
    cos: Vec<(u8, u32, u32)>,
}

fn gen_d(seed: u64) -> ParamsD {
    let mut r = gen_rng(seed);
    let mut rt = RtCfg::gen(&mut r, 3);
    rt.workers = rt.workers.max(2);
    rt.pool_cap = *r.pick(&[1usize, 2, 8]);
    let n = r.range(1, 4) as usize;
    ParamsD { rt, cos: (0..n).map(|_| (r.below(4) as u8, r.below(25) as u32, r.below(3) as u32)).collect() }
}

pub fn run_detached(seed: u64, mut ov: impl FnMut(&mut engine::Cfg)) -> ! {
    use may::sync::Semphore;
    let p = gen_d(seed);
    let mut cfg = swarm_cfg(seed, &swarm());
    // the window is "registered, registration not finished": always hold some worker up inside
    // the park / cancel code for a while
    cfg.stall_budget = 2;
    cfg.stall_ppm = 1500;
    cfg.stall_max_ns = 600_000;
    cfg.stall_focus = &["src/park.rs", "src/cancel.rs"];
    cfg.tick_ns = 25;
    ov(&mut cfg);
    engine::init(cfg);
    engine::set_extra("params", engine::json_str(&format!("{:?}", p)));
    rt::boot(&p.rt);
    engine::set_diag(|| format!("in flight: {}", OPS.pending()));
    engine::set_vt_limit(engine::now() + 300_000_000);

    let mut actors: Vec<rt::Actor> = Vec::new();
    let mut dones = Vec::new();
    for (ci, (kind, dally, tail)) in p.cos.iter().cloned().enumerate() {
        let started = Arc::new(AtomicBool::new(false));
        let done = Arc::new(AtomicBool::new(false));
        let (tx, rx) = mpsc::channel::<u32>();
        let m = Arc::new(Mutex::new(0u32));
        let sem = Arc::new(Semphore::new(0));
        let co_slot: Arc<std::sync::Mutex<Option<coroutine::Coroutine>>> = Arc::new(std::sync::Mutex::new(None));
        // the lock is held by the waker until it lets the coroutine go
        let (m2, sem2, st2, d2, slot2) = (m.clone(), sem.clone(), started.clone(), done.clone(), co_slot.clone());
        let (m3, sem3, st3, slot3) = (m.clone(), sem.clone(), started.clone(), co_slot.clone());
        let locked = Arc::new(AtomicBool::new(false));
        let (l2, l3) = (locked.clone(), locked.clone());
        actors.push(rt::spawn_actor(Ctx::Thread, &format!("waker{}", ci), move || {
            let g = if kind == 1 { Some(m3.lock().unwrap()) } else { None };
            rt::set_flag(&l3);
            rt::wait_flag(&st3, usize::MAX);
            for _ in 0..dally {
                engine::yield_point();
            }
            match kind {
                0 => {
                    let _ = tx.send(7);
                }
                1 => drop(g),
                2 => sem3.post(),
                _ => {
                    // the handle is given back at once: the coroutine stays the only owner
                    let h = slot3.lock().unwrap().take();
                    if let Some(h) = h {
                        h.unpark();
                        drop(h);
                    }
                }
            }
        }));
        rt::wait_flag(&l2, usize::MAX);
        let h = unsafe {
            coroutine::spawn(move || {
                struct G(Arc<AtomicBool>);
                impl Drop for G {
                    fn drop(&mut self) {
                        rt::set_flag(&self.0);
                    }
                }
                let _g = G(d2);
                if kind == 3 {
                    *slot2.lock().unwrap() = Some(coroutine::current());
                }
                rt::set_flag(&st2);
                match kind {
                    0 => {
                        if rx.recv() != Ok(7) {
                            violation("detached coroutine: recv did not deliver the value");
                        }
                    }
                    1 => {
                        let mut g = m2.lock().unwrap();
                        *g += 1;
                    }
                    2 => sem2.wait(),
                    _ => coroutine::park(),
                }
                for _ in 0..tail {
                    coroutine::yield_now();
                }
            })
        };
        // detached: from here on only the coroutine itself keeps its handle alive
        drop(h);
        dones.push((ci, done));
    }
    rt::await_actors(&actors, engine::now() + 100_000_000);
    for (ci, d) in dones {
        let o = OPS.begin(format!("end of detached coroutine {}", ci));
        rt::wait_flag(&d, usize::MAX);
        o.done();
    }
    // let the workers finish what they were doing with these coroutines
    engine::sleep(3_000_000);
    // the runtime still works
    let h = unsafe { coroutine::spawn(|| 5u32) };
    if !matches!(h.join(), Ok(5)) {
        violation("a coroutine spawned afterwards did not complete");
    }
    engine::finish_ok()
}


// ------------------------------------------------------------------------------------------------
// aimed: a coroutine that unwinds (scripted panic while holding a guard) ends up waiting for
// another worker inside the unlock (Park::drop of a cancelled waiter's blocker whose registration
// is still in progress on a stalled worker). std counts panics per OS thread: the worker must not
// run other coroutines meanwhile - a victim that takes a lock then and panics later would not
// poison it - and the unwinding coroutine must not come back on another worker
// ------------------------------------------------------------------------------------------------

#[derive(Debug)]
struct ParamsU {
    rwlock: bool,
    /// which load in cancel.rs of the waiter's worker gets the stall (the right one is the
    /// is_canceled re-check at the end of Park::subscribe)
    site_nth: u32,
    cancel_delay_ns: u64,
    victim_yields: u32,
    /// variant: the unwinding coroutine is a cancelled spsc receiver woken by a send while its
    /// registration (spsc Park::subscribe) is still held up on another worker
    spsc: bool,
}

fn gen_u(seed: u64) -> ParamsU {
    let mut r = gen_rng(seed);
    ParamsU { rwlock: r.chance(1, 2), site_nth: r.below(4) as u32, cancel_delay_ns: *r.pick(&[20_000u64, 100_000, 400_000]), victim_yields: r.range(1, 4) as u32, spsc: r.chance(1, 3) }
}

pub fn run_unwind(seed: u64, mut ov: impl FnMut(&mut engine::Cfg)) -> ! {
    let p = gen_u(seed);
    let mut cfg = swarm_cfg(seed, &Swarm { stalls: false, ..swarm() });
    // time passes while somebody runs (the stalled worker comes back while others spin)
    cfg.tick_ns = 25;
    ov(&mut cfg);
    engine::init(cfg);
    engine::set_extra("params", engine::json_str(&format!("{:?}", p)));
    rt::boot(&RtCfg { workers: 2, pool_cap: 8, stack_size: 0x8000, poll_ns: 10_000_000 });
    engine::set_diag(|| format!("in flight: {}", OPS.pending()));
    engine::set_vt_limit(engine::now() + 500_000_000);

    if p.spsc {
        run_unwind_spsc(&p);
    }
    let m: Arc<Mutex<u64>> = Arc::new(Mutex::new(0));
    let rw: Arc<RwLock<u64>> = Arc::new(RwLock::new(0));
    let m2: Arc<Mutex<u64>> = Arc::new(Mutex::new(0));
    let h_holds = Arc::new(AtomicBool::new(false));
    let w_parking = Arc::new(AtomicBool::new(false));
    let w_gone = Arc::new(AtomicBool::new(false));
    let (vtx, vrx) = mpsc::channel::<u32>();

    // the victim: takes a lock while the holder is (wrongly) switched out mid-unwind, panics later
    let victim = {
        let (m2, yields) = (m2.clone(), p.victim_yields);
        unsafe {
            coroutine::spawn(move || {
                let _ = vrx.recv();
                let mut g = m2.lock().unwrap();
                *g += 1;
                for _ in 0..yields {
                    coroutine::yield_now();
                }
                if yields < 100 {
                    std::panic::panic_any(Scripted(2));
                }
            })
        }
    };
    // the holder
    let holder = {
        let (m, rw, hh, wg, use_rw) = (m.clone(), rw.clone(), h_holds.clone(), w_gone.clone(), p.rwlock);
        unsafe {
            coroutine::spawn(move || {
                let g1 = if use_rw { None } else { Some(m.lock().unwrap()) };
                let g2 = if use_rw { Some(rw.write().unwrap()) } else { None };
                rt::set_flag(&hh);
                rt::wait_flag(&wg, usize::MAX);
                // the victim becomes runnable, then we unwind while holding the guard
                let _ = vtx.send(1);
                let _keep = (g1, g2);
                if use_rw || !use_rw {
                    std::panic::panic_any(Scripted(1));
                }
            })
        }
    };
    // the waiter: its worker is held up at the end of Park::subscribe, it is cancelled meanwhile
    let waiter = {
        let (m, rw, hh, wp, wg, use_rw, nth) = (m.clone(), rw.clone(), h_holds.clone(), w_parking.clone(), w_gone.clone(), p.rwlock, p.site_nth);
        unsafe {
            coroutine::spawn(move || {
                struct G(Arc<AtomicBool>);
                impl Drop for G {
                    fn drop(&mut self) {
                        rt::set_flag(&self.0);
                    }
                }
                let _g = G(wg);
                rt::wait_flag(&hh, usize::MAX);
                rt::set_flag(&wp);
                engine::stall_self_at_site("src/cancel.rs", "load", nth, 1_500_000);
                if use_rw {
                    let _x = rw.write();
                } else {
                    let _x = m.lock();
                }
                engine::disarm_stall();
            })
        }
    };
    let ctl = {
        let (wp, co, d) = (w_parking.clone(), waiter.coroutine().clone(), p.cancel_delay_ns);
        rt::spawn_actor(Ctx::Thread, "ctl", move || {
            rt::wait_flag(&wp, usize::MAX);
            engine::sleep(d);
            unsafe { co.cancel() };
        })
    };
    rt::await_actors(std::slice::from_ref(&ctl), engine::now() + 100_000_000);
    let o = OPS.begin("join of the waiter".to_string());
    let _ = waiter.join();
    o.done();
    let o = OPS.begin("join of the holder".to_string());
    match holder.join() {
        Err(e) if e.downcast_ref::<Scripted>().map(|s| s.0) == Some(1) => {}
        _ => violation("the holder did not end with its own panic"),
    }
    o.done();
    let o = OPS.begin("join of the victim".to_string());
    match victim.join() {
        Err(e) if e.downcast_ref::<Scripted>().map(|s| s.0) == Some(2) => {}
        _ => violation("the victim did not end with its own panic"),
    }
    o.done();
    if !m2.is_poisoned() {
        violation("Mutex::is_poisoned() is false although its guard was dropped by a panic of the holder: the guard was taken while the worker thread counted as panicking (another coroutine had been switched out in the middle of its unwinding)");
    }
    let poisoned = if p.rwlock { rw.is_poisoned() } else { m.is_poisoned() };
    if !poisoned {
        violation("the lock whose guard the panicking holder dropped is not poisoned");
    }
    // no worker is left "panicking"
    let mut last = Vec::new();
    for w in 0..4usize {
        last.push(unsafe { coroutine::Builder::new().id(w).spawn(move || std::thread::panicking()).unwrap() });
    }
    for (w, h) in last.into_iter().enumerate() {
        match h.join() {
            Ok(false) => {}
            Ok(true) => violation(&format!(
                "worker {} reports thread::panicking() although nothing is unwinding: a coroutine was switched out / moved while it unwound, poisoning is broken on this worker",
                w % 2
            )),
            Err(_) => violation("late coroutine panicked"),
        }
    }
    engine::finish_ok()
}

fn run_unwind_spsc(p: &ParamsU) -> ! {
    use may::sync::spsc;
    let m2: Arc<Mutex<u64>> = Arc::new(Mutex::new(0));
    let w_parking = Arc::new(AtomicBool::new(false));
    let (vtx, vrx) = mpsc::channel::<u32>();
    let (stx, srx) = spsc::channel::<u32>();
    let victim = {
        let (m2, yields) = (m2.clone(), p.victim_yields);
        unsafe {
            coroutine::spawn(move || {
                let _ = vrx.recv();
                let mut g = m2.lock().unwrap();
                *g += 1;
                for _ in 0..yields {
                    coroutine::yield_now();
                }
                if yields < 100 {
                    std::panic::panic_any(Scripted(2));
                }
            })
        }
    };
    // the receiver: its worker is held up inside spsc's Park::subscribe, it is cancelled (only the
    // flag is set: this park is not registered with the cancel data) and then woken by a send
    let waiter = {
        let (wp, nth) = (w_parking.clone(), p.site_nth);
        unsafe {
            coroutine::spawn(move || {
                rt::set_flag(&wp);
                engine::stall_self_at_site("src/sync/spsc.rs", "load", nth, 1_500_000);
                let _ = srx.recv();
                engine::disarm_stall();
            })
        }
    };
    let ctl = {
        let (wp, co, d) = (w_parking.clone(), waiter.coroutine().clone(), p.cancel_delay_ns);
        rt::spawn_actor(Ctx::Thread, "ctl", move || {
            rt::wait_flag(&wp, usize::MAX);
            engine::sleep(d);
            unsafe { co.cancel() };
            // the victim becomes runnable, then the receiver is woken and unwinds
            let _ = vtx.send(1);
            let _ = stx.send(9);
            engine::sleep(10_000_000);
            drop(stx);
        })
    };
    rt::await_actors(std::slice::from_ref(&ctl), engine::now() + 100_000_000);
    let o = OPS.begin("join of the receiver".to_string());
    let _ = waiter.join();
    o.done();
    let o = OPS.begin("join of the victim".to_string());
    match victim.join() {
        Err(e) if e.downcast_ref::<Scripted>().map(|s| s.0) == Some(2) => {}
        _ => violation("the victim did not end with its own panic"),
    }
    o.done();
    if !m2.is_poisoned() {
        violation("Mutex::is_poisoned() is false although its guard was dropped by a panic of the holder: the guard was taken while the worker thread counted as panicking (another coroutine had been switched out in the middle of its unwinding)");
    }
    let mut last = Vec::new();
    for w in 0..4usize {
        last.push(unsafe { coroutine::Builder::new().id(w).spawn(move || std::thread::panicking()).unwrap() });
    }
    for (w, h) in last.into_iter().enumerate() {
        match h.join() {
            Ok(false) => {}
            Ok(true) => violation(&format!(
                "worker {} reports thread::panicking() although nothing is unwinding: a coroutine was switched out / moved while it unwound, poisoning is broken on this worker",
                w % 2
            )),
            Err(_) => violation("late coroutine panicked"),
        }
    }
    engine::finish_ok()
}
