//! C01 — every spawned coroutine runs exactly once; join() reports its true outcome

use crate::engine::{self, violation};
use crate::oracle::Scripted;
use crate::rng::Rng;
use crate::rt::{self, Mailbox, RtCfg, OPS};
use crate::{gen_rng, swarm_cfg, Swarm};
use may::coroutine::{self, Coroutine, JoinHandle};
use std::sync::atomic::{AtomicBool, AtomicU32, Ordering};
use std::sync::Arc;
use std::time::Duration;

const MAXCO: usize = 64;
#[allow(clippy::declare_interior_mutable_const)]
const ZU: AtomicU32 = AtomicU32::new(0);
#[allow(clippy::declare_interior_mutable_const)]
const ZB: AtomicBool = AtomicBool::new(false);
static STARTED: [AtomicU32; MAXCO] = [ZU; MAXCO];
static FINISHED: [AtomicBool; MAXCO] = [ZB; MAXCO];
static RUNNING: [AtomicBool; MAXCO] = [ZB; MAXCO];
static SPAWNED: [AtomicBool; MAXCO] = [ZB; MAXCO];
static DONE: AtomicU32 = AtomicU32::new(0);

#[derive(Clone, Debug)]
enum Step {
    Yield,
    Sleep(u64),
    Park,
    Child(usize),
}

#[derive(Clone, Debug, PartialEq)]
enum End {
    Return,
    Panic,
}

#[derive(Clone, Debug, PartialEq)]
enum SpawnKind {
    Plain,
    Named,
    CustomStack(usize),
    WithId(usize),
    Local,
}

#[derive(Clone, Debug)]
struct Spec {
    id: u32,
    steps: Vec<Step>,
    end: End,
    spawn: SpawnKind,
    /// 0 main thread, 1 joiner coroutine, 2 joiner thread
    joiner: u8,
    /// 0 join, 1 poll is_done then join, 2 wait then join
    join_mode: u8,
    /// cancel issued by the controller after this many of its yield points
    cancel_after: Option<u32>,
    top: bool,
}

#[derive(Debug)]
struct Params {
    rt: RtCfg,
    specs: Vec<Spec>,
    spawn_from_thread: bool,
}

fn gen_steps(r: &mut Rng, n: usize) -> Vec<Step> {
    (0..n)
        .map(|_| match r.below(100) {
            0..=49 => Step::Yield,
            50..=69 => Step::Sleep(*r.pick(&[0u64, 1_000, 300_000, 1_000_000, 1_500_000, 2_000_000])),
            _ => Step::Park,
        })
        .collect()
}

fn gen_spawn(r: &mut Rng) -> SpawnKind {
    match r.below(10) {
        0..=4 => SpawnKind::Plain,
        5 => SpawnKind::Named,
        6 => SpawnKind::CustomStack(*r.pick(&[0x3000usize, 0x5001, 0x8000])),
        7..=8 => SpawnKind::WithId(r.below(7) as usize),
        _ => SpawnKind::Local,
    }
}

fn gen(seed: u64) -> Params {
    let mut r = gen_rng(seed);
    let rt = RtCfg::gen(&mut r, 4);
    let ntop = r.range(1, 5) as usize;
    let mut specs: Vec<Spec> = Vec::new();
    for _ in 0..ntop {
        let id = specs.len() as u32;
        let n = r.range(0, 4) as usize;
        let mut steps = gen_steps(&mut r, n);
        let spec_idx = specs.len();
        specs.push(Spec {
            id,
            steps: Vec::new(),
            end: if r.chance(1, 5) { End::Panic } else { End::Return },
            spawn: gen_spawn(&mut r),
            joiner: r.below(3) as u8,
            join_mode: r.below(3) as u8,
            cancel_after: if r.chance(1, 4) { Some(r.below(40) as u32) } else { None },
            top: true,
        });
        if r.chance(1, 3) {
            // a child spawned and joined by this coroutine
            let cid = specs.len() as u32;
            let cn = r.range(0, 3) as usize;
            let csteps = gen_steps(&mut r, cn);
            let mut sp = gen_spawn(&mut r);
            if sp == SpawnKind::Local && r.chance(1, 2) {
                sp = SpawnKind::Plain;
            }
            specs.push(Spec {
                id: cid,
                steps: csteps,
                end: if r.chance(1, 5) { End::Panic } else { End::Return },
                spawn: sp,
                joiner: 0,
                join_mode: r.below(3) as u8,
                cancel_after: None,
                top: false,
            });
            let pos = r.below(steps.len() as u64 + 1) as usize;
            steps.insert(pos, Step::Child(cid as usize));
        }
        specs[spec_idx].steps = steps;
    }
    Params {
        rt,
        specs,
        spawn_from_thread: r.chance(1, 2),
    }
}

pub fn swarm() -> Swarm {
    Swarm {
        alloc_modes: true,
        stalls: true,
        stall_max_ns: 3_000_000,
        est_len: 4000,
        max_steps: 600_000,
        ..Default::default()
    }
}

struct Fin(u32);
impl Drop for Fin {
    fn drop(&mut self) {
        RUNNING[self.0 as usize].store(false, Ordering::Relaxed);
        FINISHED[self.0 as usize].store(true, Ordering::Relaxed);
        rt::bump(&DONE);
    }
}

enum Req {
    Unpark(Coroutine),
}

fn seg_leave(id: u32) {
    RUNNING[id as usize].store(false, Ordering::Relaxed);
}

fn seg_enter(id: u32) {
    if RUNNING[id as usize].swap(true, Ordering::Relaxed) {
        violation(&format!("coroutine {} is executing twice at the same time", id));
    }
}

fn spawn_spec(all: &Arc<Vec<Spec>>, idx: usize, mb: &Arc<Mailbox<Req>>) -> JoinHandle<u32> {
    let spec = all[idx].clone();
    SPAWNED[spec.id as usize].store(true, Ordering::Relaxed);
    let all2 = all.clone();
    let mb2 = mb.clone();
    let f = move || body(&all2, idx, &mb2);
    unsafe {
        match spec.spawn {
            SpawnKind::Plain => coroutine::spawn(f),
            SpawnKind::Named => coroutine::Builder::new().name(format!("co{}", spec.id)).spawn(f).unwrap(),
            SpawnKind::CustomStack(sz) => coroutine::Builder::new().stack_size(sz).spawn(f).unwrap(),
            SpawnKind::WithId(n) => coroutine::Builder::new().id(n).spawn(f).unwrap(),
            SpawnKind::Local => coroutine::Builder::new().spawn_local(f).unwrap(),
        }
    }
}

fn body(all: &Arc<Vec<Spec>>, idx: usize, mb: &Arc<Mailbox<Req>>) -> u32 {
    let spec = &all[idx];
    let id = spec.id;
    if STARTED[id as usize].fetch_add(1, Ordering::Relaxed) != 0 {
        violation(&format!("closure of coroutine {} executed more than once", id));
    }
    seg_enter(id);
    let _fin = Fin(id);
    if !coroutine::is_coroutine() {
        violation(&format!("closure of coroutine {} runs outside coroutine context", id));
    }
    for st in &spec.steps {
        match st {
            Step::Yield => {
                seg_leave(id);
                coroutine::yield_now();
                seg_enter(id);
            }
            Step::Sleep(ns) => {
                let t0 = engine::now();
                seg_leave(id);
                coroutine::sleep(Duration::from_nanos(*ns));
                seg_enter(id);
                let _ = t0;
            }
            Step::Park => {
                mb.post(Req::Unpark(coroutine::current()));
                seg_leave(id);
                coroutine::park();
                seg_enter(id);
            }
            Step::Child(c) => {
                let h = spawn_spec(all, *c, mb);
                let child = &all[*c];
                seg_leave(id);
                let r = join_and_check(h, child);
                seg_enter(id);
                if let Err(e) = r {
                    violation(&e);
                }
            }
        }
    }
    if spec.end == End::Panic {
        std::panic::panic_any(Scripted(id));
    }
    id
}

/// join according to the spec's mode and compare with the scripted outcome
fn join_and_check(h: JoinHandle<u32>, spec: &Spec) -> Result<(), String> {
    let id = spec.id;
    let op = OPS.begin(format!("join of coroutine {}", id));
    match spec.join_mode {
        1 => {
            for _ in 0..6 {
                if h.is_done() {
                    if !FINISHED[id as usize].load(Ordering::Relaxed) {
                        return Err(format!("is_done() of coroutine {} returned true before its closure finished", id));
                    }
                    break;
                }
                rt::relax();
            }
        }
        2 => {
            h.wait();
            if !FINISHED[id as usize].load(Ordering::Relaxed) {
                return Err(format!("wait() on coroutine {} returned before its closure finished", id));
            }
            if !h.is_done() {
                return Err(format!("is_done() false after wait() returned for coroutine {}", id));
            }
        }
        _ => {}
    }
    let r = h.join();
    op.done();
    if !FINISHED[id as usize].load(Ordering::Relaxed) {
        return Err(format!("join() of coroutine {} returned before its closure finished", id));
    }
    let cancel_possible = spec.cancel_after.is_some();
    match r {
        Ok(v) => {
            if v != id {
                return Err(format!("join() of coroutine {} returned the value {}", id, v));
            }
            if spec.end == End::Panic {
                return Err(format!("coroutine {} panicked but join() returned Ok", id));
            }
        }
        Err(p) => {
            if let Some(s) = p.downcast_ref::<Scripted>() {
                if s.0 != id {
                    return Err(format!("join() of coroutine {} returned the panic payload of {}", id, s.0));
                }
                if spec.end != End::Panic {
                    return Err(format!("coroutine {} returned normally but join() reported a panic", id));
                }
            } else if let Some(e) = p.downcast_ref::<generator::Error>() {
                if !(matches!(e, generator::Error::Cancel) && cancel_possible) {
                    return Err(format!("join() of coroutine {} (never cancelled) returned {:?}", id, e));
                }
            } else {
                return Err(format!("join() of coroutine {} returned a foreign panic payload: {}", id, crate::panic_msg(&p)));
            }
        }
    }
    Ok(())
}

pub fn run(seed: u64, mut cfg_override: impl FnMut(&mut engine::Cfg)) -> ! {
    let p = gen(seed);
    let mut cfg = swarm_cfg(seed, &swarm());
    cfg_override(&mut cfg);
    engine::init(cfg);
    engine::set_extra("params", engine::json_str(&format!("{:?}", p)));
    rt::boot(&p.rt);

    let all = Arc::new(p.specs.clone());
    let mb: Arc<Mailbox<Req>> = Mailbox::new();
    // the unparker: a plain thread that answers every park request with one unpark
    let unparker = {
        let mb = mb.clone();
        engine::spawn("unparker", move || {
            mb.serve(|r| match r {
                Req::Unpark(co) => co.unpark(),
            })
        })
    };

    // spawn the top-level coroutines (from main or from a spawner thread)
    let tops: Vec<usize> = (0..all.len()).filter(|&i| all[i].top).collect();
    let handles: Arc<std::sync::Mutex<Vec<(usize, JoinHandle<u32>)>>> = Arc::new(std::sync::Mutex::new(Vec::new()));
    let cancels: Arc<std::sync::Mutex<Vec<(u32, Coroutine)>>> = Arc::new(std::sync::Mutex::new(Vec::new()));
    let do_spawn = {
        let all = all.clone();
        let mb = mb.clone();
        let handles = handles.clone();
        let cancels = cancels.clone();
        let tops = tops.clone();
        move || {
            for &i in &tops {
                let h = spawn_spec(&all, i, &mb);
                if let Some(k) = all[i].cancel_after {
                    cancels.lock().unwrap().push((k, h.coroutine().clone()));
                }
                handles.lock().unwrap().push((i, h));
            }
        }
    };
    if p.spawn_from_thread {
        let t = engine::spawn("spawner", do_spawn);
        engine::join(t);
    } else {
        do_spawn();
    }

    // the controller issues the cancels at their scripted moments
    let ctl = {
        let cancels = cancels.clone();
        engine::spawn("ctl", move || {
            let mut v: Vec<(u32, Coroutine)> = std::mem::take(&mut *cancels.lock().unwrap());
            v.sort_by_key(|c| c.0);
            let mut k = 0;
            for (at, co) in v {
                while k < at {
                    engine::yield_point();
                    k += 1;
                }
                unsafe { co.cancel() };
            }
        })
    };

    // joiners
    let mut mine = Vec::new();
    let mut for_co = Vec::new();
    let mut for_th = Vec::new();
    for (i, h) in handles.lock().unwrap().drain(..) {
        match all[i].joiner {
            0 => mine.push((i, h)),
            1 => for_co.push((i, h)),
            _ => for_th.push((i, h)),
        }
    }
    let joined = Arc::new(AtomicU32::new(0));
    let n_join = tops.len() as u32;
    let jc = {
        let all = all.clone();
        let joined = joined.clone();
        unsafe {
            coroutine::spawn(move || {
                for (i, h) in for_co {
                    if let Err(e) = join_and_check(h, &all[i]) {
                        violation(&e);
                    }
                    rt::bump(&joined);
                }
            })
        }
    };
    let jt = {
        let all = all.clone();
        let joined = joined.clone();
        engine::spawn("joiner", move || {
            for (i, h) in for_th {
                if let Err(e) = join_and_check(h, &all[i]) {
                    violation(&e);
                }
                rt::bump(&joined);
            }
        })
    };
    let _ = (jc, jt, ctl);

    // bounded liveness: everything must be over within the scripted sleeps plus slack
    let total_sleep: u64 = all
        .iter()
        .flat_map(|s| s.steps.iter())
        .map(|s| match s {
            Step::Sleep(ns) => (*ns).max(1_000_000) + 1_000_000,
            _ => 0,
        })
        .sum();
    let deadline = engine::now() + total_sleep + 20_000_000 + 4 * p.rt.poll_ns.min(20_000_000);
    engine::set_vt_limit(deadline + 1_000_000);
    engine::set_diag(|| format!("in flight: {}", OPS.pending()));
    for (i, h) in mine {
        if let Err(e) = join_and_check(h, &all[i]) {
            violation(&e);
        }
        rt::bump(&joined);
    }
    rt::await_count(&joined, n_join, deadline, "joins of the top-level coroutines");
    // children of a parent that was cancelled before its spawn step never exist
    let n_spawned = all.iter().filter(|s| SPAWNED[s.id as usize].load(Ordering::Relaxed)).count() as u32;
    rt::await_count(&DONE, n_spawned, deadline, "closures of the spawned coroutines");
    mb.close();
    engine::join(unparker);
    for s in all.iter() {
        if !SPAWNED[s.id as usize].load(Ordering::Relaxed) {
            continue;
        }
        let st = STARTED[s.id as usize].load(Ordering::Relaxed);
        if st != 1 {
            violation(&format!("closure of coroutine {} executed {} times", s.id, st));
        }
        if !FINISHED[s.id as usize].load(Ordering::Relaxed) {
            violation(&format!("coroutine {} did not run to its end", s.id));
        }
    }
    engine::finish_ok()
}

// ------------------------------------------------------------------------------------------------
// aimed: the global-queue hand-off. A plain thread spawns a few coroutines with small gaps while
// the (single) worker is busy handling the wake-up of the previous one: push to the worker's
// global queue + eventfd write on one side, eventfd read + collect on the other. Every spawned
// coroutine runs, whatever the order (in the build without work stealing nothing but the wake-up
// event makes a worker look at its global queue)
// ------------------------------------------------------------------------------------------------

pub fn run_handoff(seed: u64, mut ov: impl FnMut(&mut engine::Cfg)) -> ! {
    let mut r = gen_rng(seed);
    let workers = *r.pick(&[1usize, 1, 2]);
    let n = r.range(2, 5) as usize;
    let gaps: Vec<u32> = (0..n).map(|_| r.below(50) as u32).collect();
    let yields: Vec<u32> = (0..n).map(|_| r.below(3) as u32).collect();
    let mut cfg = swarm_cfg(seed, &swarm());
    ov(&mut cfg);
    engine::init(cfg);
    engine::set_extra("params", engine::json_str(&format!("hand-off: workers {} gaps {:?} yields {:?}", workers, gaps, yields)));
    rt::boot(&RtCfg { workers, pool_cap: 8, stack_size: 0x8000, poll_ns: *r.pick(&[10_000_000u64, 1_000_000_000]) });
    engine::set_diag(|| format!("in flight: {}", OPS.pending()));
    engine::set_vt_limit(engine::now() + 5_000_000_000);
    let ran = Arc::new(AtomicU32::new(0));
    let mut hs = Vec::new();
    for k in 0..n {
        for _ in 0..gaps[k] {
            engine::yield_point();
        }
        let (ran, y) = (ran.clone(), yields[k]);
        hs.push(unsafe {
            may::coroutine::spawn(move || {
                for _ in 0..y {
                    may::coroutine::yield_now();
                }
                ran.fetch_add(1, Ordering::Relaxed);
                k as u32
            })
        });
    }
    for (k, h) in hs.into_iter().enumerate() {
        let o = OPS.begin(format!("join of coroutine {} (spawned from a thread)", k));
        match h.join() {
            Ok(v) if v == k as u32 => {}
            _ => violation(&format!("join of coroutine {} did not return its value", k)),
        }
        o.done();
    }
    if ran.load(Ordering::Relaxed) != n as u32 {
        violation("not every spawned coroutine ran exactly once");
    }
    engine::finish_ok()
}
