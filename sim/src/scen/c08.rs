//! C08 — timed waits never fire early, never hang, fire promptly, for every duration

use crate::engine::{self, violation};
use crate::rt::{self, Actor, Ctx, RtCfg, OPS};
use crate::{gen_rng, swarm_cfg, Swarm};
use may::coroutine;
use may::sync::{mpmc, mpsc, Blocker, Condvar, Mutex, Semphore, SyncFlag};
use std::sync::atomic::{AtomicBool, Ordering};
use std::sync::Arc;
use std::time::Duration;

pub fn swarm() -> Swarm {
    Swarm {
        alloc_modes: true,
        stalls: true,
        stall_max_ns: 3_000_000,
        cas_weak: true,
        est_len: 6000,
        max_steps: 900_000,
        ..Default::default()
    }
}

const DURS: [u64; 13] = [
    0, 1, 999, 500_000, 999_999, 1_000_000, 1_000_001, 1_500_000, 2_000_001, 3_000_000, 10_000_000, 100_000_000,
    1_000_000_000,
];
const HOUR: u64 = 3_600_000_000_000;

#[derive(Debug, Clone, Copy, PartialEq)]
enum Kind {
    Sleep,
    MpscRecv,
    MpmcRecv,
    Sem,
    Flag,
    Cond,
    BlockerPark,
    CoParkTimeout,
}

#[derive(Debug, Clone)]
struct Wait {
    kind: Kind,
    d: u64,
    /// the awaited event is produced this long after the wait started (None = never)
    satisfy_after: Option<u64>,
}

#[derive(Debug)]
struct Params {
    rt: RtCfg,
    actors: Vec<(Ctx, Vec<Wait>)>,
}

fn gen(seed: u64) -> Params {
    let mut r = gen_rng(seed);
    let mut rt = RtCfg::gen(&mut r, 3);
    let n = r.range(1, 4) as usize;
    let long = r.chance(1, 12);
    let mut actors = Vec::new();
    // equal intervals share one timer list, different ones compete in the heap: draw from a
    // small per-run palette so that both happen
    let palette: Vec<u64> = (0..3).map(|_| *r.pick(&DURS)).collect();
    for _ in 0..n {
        let ctx = Ctx::gen(&mut r);
        let k = r.range(1, 3) as usize;
        let waits = (0..k)
            .map(|_| {
                let kind = match r.below(100) {
                    0..=24 => Kind::Sleep,
                    25..=36 => Kind::MpscRecv,
                    37..=46 => Kind::MpmcRecv,
                    47..=58 => Kind::Sem,
                    59..=68 => Kind::Flag,
                    69..=78 => Kind::Cond,
                    79..=90 => Kind::BlockerPark,
                    _ => Kind::CoParkTimeout,
                };
                let mut d = if r.chance(2, 3) { *r.pick(&palette) } else { *r.pick(&DURS) };
                if long && r.chance(1, 3) {
                    d = HOUR;
                }
                let satisfy_after = if kind != Kind::Sleep && r.chance(1, 3) {
                    Some(match r.below(4) {
                        0 => d / 4,
                        1 => d.saturating_sub(1_000),
                        2 => d,
                        _ => d + 500_000,
                    })
                } else {
                    None
                };
                Wait { kind, d, satisfy_after }
            })
            .collect();
        actors.push((ctx, waits));
    }
    if long {
        // an hour of virtual time with a 10 ms poll would be 360 k idle rounds per worker
        rt.poll_ns = HOUR;
    }
    Params { rt, actors }
}

fn ceil_ms(d: u64) -> u64 {
    d.div_ceil(1_000_000).max(1) * 1_000_000
}

/// a helper thread that produces the awaited event `after` ns from now
fn satisfier(after: u64, f: impl FnOnce() + Send + 'static) -> Actor {
    rt::spawn_actor(Ctx::Thread, "satisfier", move || {
        engine::sleep(after);
        f();
    })
}

/// perform one timed wait; returns (timed_out, satisfied flag)
fn do_wait(w: &Wait, who: &str, helpers: &mut Vec<Actor>) -> bool {
    let d = Duration::from_nanos(w.d);
    let fired = Arc::new(AtomicBool::new(false));
    let f2 = fired.clone();
    match w.kind {
        Kind::Sleep => {
            if coroutine::is_coroutine() {
                coroutine::sleep(d);
            } else {
                // the thread-context fallback of may::coroutine::sleep
                coroutine::sleep(d);
            }
            true
        }
        Kind::MpscRecv => {
            let (tx, rx) = mpsc::channel::<u32>();
            if let Some(a) = w.satisfy_after {
                let tx2 = tx.clone();
                helpers.push(satisfier(a, move || {
                    f2.store(true, Ordering::Relaxed);
                    let _ = tx2.send(7);
                }));
            }
            let r = rx.recv_timeout(d);
            drop(tx);
            match r {
                Ok(7) => false,
                Ok(v) => violation(&format!("{}: received {} from a channel that carries 7", who, v)),
                Err(std::sync::mpsc::RecvTimeoutError::Timeout) => true,
                Err(e) => violation(&format!("{}: mpsc recv_timeout reported {:?} with a live sender", who, e)),
            }
        }
        Kind::MpmcRecv => {
            let (tx, rx) = mpmc::channel::<u32>();
            if let Some(a) = w.satisfy_after {
                let tx2 = tx.clone();
                helpers.push(satisfier(a, move || {
                    f2.store(true, Ordering::Relaxed);
                    let _ = tx2.send(7);
                }));
            }
            let r = rx.recv_timeout(d);
            drop(tx);
            match r {
                Ok(7) => false,
                Ok(v) => violation(&format!("{}: received {} from a channel that carries 7", who, v)),
                Err(std::sync::mpsc::RecvTimeoutError::Timeout) => true,
                Err(e) => violation(&format!("{}: mpmc recv_timeout reported {:?} with a live sender", who, e)),
            }
        }
        Kind::Sem => {
            let s = Arc::new(Semphore::new(0));
            if let Some(a) = w.satisfy_after {
                let s2 = s.clone();
                helpers.push(satisfier(a, move || {
                    f2.store(true, Ordering::Relaxed);
                    s2.post();
                }));
            }
            !s.wait_timeout(d)
        }
        Kind::Flag => {
            let s = Arc::new(SyncFlag::new());
            if let Some(a) = w.satisfy_after {
                let s2 = s.clone();
                helpers.push(satisfier(a, move || {
                    f2.store(true, Ordering::Relaxed);
                    s2.fire();
                }));
            }
            !s.wait_timeout(d)
        }
        Kind::Cond => {
            let pair = Arc::new((Mutex::new(false), Condvar::new()));
            if let Some(a) = w.satisfy_after {
                let p2 = pair.clone();
                helpers.push(satisfier(a, move || {
                    f2.store(true, Ordering::Relaxed);
                    *p2.0.lock().unwrap() = true;
                    p2.1.notify_one();
                }));
            }
            let g = pair.0.lock().unwrap();
            if *g {
                return false;
            }
            let (g, res) = pair.1.wait_timeout(g, d).unwrap();
            let timed_out = res.timed_out();
            drop(g);
            timed_out
        }
        Kind::BlockerPark => {
            let b = Blocker::current();
            if let Some(a) = w.satisfy_after {
                let b2 = b.clone();
                helpers.push(satisfier(a, move || {
                    f2.store(true, Ordering::Relaxed);
                    b2.unpark();
                }));
            }
            match b.park(Some(d)) {
                Ok(()) => false,
                Err(coroutine::ParkError::Timeout) => true,
                Err(e) => violation(&format!("{}: Blocker::park reported {:?}", who, e)),
            }
        }
        Kind::CoParkTimeout => {
            if coroutine::is_coroutine() {
                let me = coroutine::current();
                if let Some(a) = w.satisfy_after {
                    helpers.push(satisfier(a, move || {
                        f2.store(true, Ordering::Relaxed);
                        me.unpark();
                    }));
                }
                coroutine::park_timeout(d);
            } else {
                // in thread context coroutine::park_timeout does nothing; use the sleep path
                coroutine::sleep(d);
            }
            // no result: only "it returns" and "not late" are checked
            !fired.load(Ordering::Relaxed)
        }
    }
}

pub fn run(seed: u64, mut ov: impl FnMut(&mut engine::Cfg)) -> ! {
    let p = gen(seed);
    let mut cfg = swarm_cfg(seed, &swarm());
    ov(&mut cfg);
    engine::init(cfg);
    engine::set_extra("params", engine::json_str(&format!("{:?}", p)));
    rt::boot(&p.rt);
    engine::set_diag(|| format!("in flight: {}", OPS.pending()));
    let quiet = engine::quiet();
    engine::set_extra("quiet", format!("{}", quiet));

    let mut actors: Vec<Actor> = Vec::new();
    let helpers_all: Arc<std::sync::Mutex<Vec<Actor>>> = Arc::new(std::sync::Mutex::new(Vec::new()));
    let mut total: u64 = 0;
    for (ai, (ctx, waits)) in p.actors.iter().cloned().enumerate() {
        total = total.max(waits.iter().map(|w| ceil_ms(w.d) + 2_000_000 + w.satisfy_after.unwrap_or(0)).sum());
        let name = format!("actor{}", ai);
        let nm = name.clone();
        let helpers_all = helpers_all.clone();
        actors.push(rt::spawn_actor(ctx, &name, move || {
            for (k, w) in waits.iter().enumerate() {
                let o = OPS.begin(format!("{} wait{} {:?}", nm, k, w));
                let mut helpers = Vec::new();
                let t0 = engine::now();
                let timed_out = do_wait(w, &nm, &mut helpers);
                let t1 = engine::now();
                o.done();
                helpers_all.lock().unwrap().extend(helpers);
                let spurious_ok = w.kind == Kind::CoParkTimeout && coroutine::is_coroutine();
                // (a) never early
                if timed_out && t1 < t0 + w.d && !spurious_ok {
                    violation(&format!(
                        "{}: {:?} with d = {} ns returned (timeout) after only {} ns",
                        nm,
                        w.kind,
                        w.d,
                        t1 - t0
                    ));
                }
                // a wait nobody satisfied must time out, not "succeed"
                if !timed_out && w.satisfy_after.is_none() && w.kind != Kind::Sleep {
                    violation(&format!("{}: {:?} reported success although nothing was ever sent/posted/fired", nm, w.kind));
                }
                // (c) promptness, only when nothing but scripted events moves the clock
                if quiet {
                    let exact_ctx = !coroutine::is_coroutine();
                    let bound = if w.kind == Kind::Sleep || exact_ctx {
                        // ns-exact paths: coroutine sleep (timer list keeps ns), thread waits
                        t0 + w.d
                    } else {
                        // Park based: whole milliseconds, at least one
                        t0 + ceil_ms(w.d)
                    };
                    let slack = 1_000_000;
                    if timed_out && t1 > bound + slack {
                        violation(&format!(
                            "{}: {:?} with d = {} ns fired {} ns after its deadline although nothing delayed it (late timer)",
                            nm,
                            w.kind,
                            w.d,
                            t1 - bound
                        ));
                    }
                }
            }
        }));
    }
    let deadline = engine::now() + total + 50_000_000;
    engine::set_vt_limit(deadline + 10_000_000);
    rt::await_actors(&actors, deadline);
    let hs: Vec<Actor> = std::mem::take(&mut *helpers_all.lock().unwrap());
    rt::await_actors(&hs, deadline + 5_000_000);
    for a in actors.iter_mut() {
        rt::expect_end(a, false);
    }
    engine::finish_ok()
}
