//! C08 — timed waits never fire early, never hang, fire promptly, for every duration

use crate::engine::{self, violation};
use crate::rt::{self, Actor, Ctx, RtCfg, OPS};
use crate::{gen_rng, swarm_cfg, Swarm};
use may::coroutine;
use may::sync::{mpmc, mpsc, Blocker, Condvar, Mutex, Semphore, SyncFlag};
use std::sync::atomic::{AtomicBool, Ordering};
use std::sync::Arc;
use std::time::Duration;

pub fn swarm() -> Swarm {
    Swarm {
        alloc_modes: true,
        stalls: true,
        stall_max_ns: 3_000_000,
        // a thread held up inside add_timer / the timer thread's scan for longer than a short timer
        stall_focus: &["src/timeout_list.rs", "may_queue/src/mpsc_list_v1.rs", "src/verif.rs"],
        cas_weak: true,
        est_len: 6000,
        max_steps: 900_000,
        ..Default::default()
    }
}

const DURS: [u64; 13] = [
    0, 1, 999, 500_000, 999_999, 1_000_000, 1_000_001, 1_500_000, 2_000_001, 3_000_000, 10_000_000, 100_000_000,
    1_000_000_000,
];
const HOUR: u64 = 3_600_000_000_000;

#[derive(Debug, Clone, Copy, PartialEq)]
enum Kind {
    Sleep,
    MpscRecv,
    MpmcRecv,
    Sem,
    Flag,
    Cond,
    BlockerPark,
    CoParkTimeout,
}

#[derive(Debug, Clone)]
struct Wait {
    kind: Kind,
    d: u64,
    /// the awaited event is produced this long after the wait started (None = never)
    satisfy_after: Option<u64>,
    /// channel / semaphore waits: an earlier event is taken without blocking right before the
    /// timed wait starts, while its producer may still be inside send / post (value published,
    /// waiter not looked at yet): the producer's late wake-up then hits the NEW wait, which has
    /// to go on waiting - a wake-up is not a time-out
    stale_wake: bool,
}

#[derive(Debug)]
struct Params {
    rt: RtCfg,
    actors: Vec<(Ctx, Vec<Wait>)>,
}

fn gen(seed: u64) -> Params {
    let mut r = gen_rng(seed);
    let mut rt = RtCfg::gen(&mut r, 3);
    let n = r.range(1, 4) as usize;
    let long = r.chance(1, 12);
    let mut actors: Vec<(Ctx, Vec<Wait>)> = Vec::new();
    // equal intervals share one timer list, different ones compete in the heap: draw from a
    // small per-run palette so that both happen
    let palette: Vec<u64> = (0..3).map(|_| *r.pick(&DURS)).collect();
    for _ in 0..n {
        let ctx = Ctx::gen(&mut r);
        let k = r.range(1, 3) as usize;
        let waits: Vec<Wait> = (0..k)
            .map(|_| {
                let kind = match r.below(100) {
                    0..=24 => Kind::Sleep,
                    25..=36 => Kind::MpscRecv,
                    37..=46 => Kind::MpmcRecv,
                    47..=58 => Kind::Sem,
                    59..=68 => Kind::Flag,
                    69..=78 => Kind::Cond,
                    79..=90 => Kind::BlockerPark,
                    _ => Kind::CoParkTimeout,
                };
                let mut d = if r.chance(2, 3) { *r.pick(&palette) } else { *r.pick(&DURS) };
                if long && r.chance(1, 3) {
                    d = HOUR;
                }
                let satisfy_after = if kind != Kind::Sleep && r.chance(1, 3) {
                    Some(match r.below(4) {
                        0 => d / 4,
                        1 => d.saturating_sub(1_000),
                        2 => d,
                        _ => d + 500_000,
                    })
                } else {
                    None
                };
                Wait { kind, d, satisfy_after, stale_wake: false }
            })
            .collect();
        actors.push((ctx, waits));
    }
    if long {
        // an hour of virtual time with a 10 ms poll would be 360 k idle rounds per worker
        rt.poll_ns = HOUR;
    }
    // drawn last: everything above is the same as before this field existed
    for a in actors.iter_mut() {
        for w in a.1.iter_mut() {
            if matches!(w.kind, Kind::MpscRecv | Kind::MpmcRecv | Kind::Sem) && r.chance(1, 3) {
                w.stale_wake = true;
            }
        }
    }
    Params { rt, actors }
}

fn ceil_ms(d: u64) -> u64 {
    d.div_ceil(1_000_000).max(1) * 1_000_000
}

/// a helper thread that produces the awaited event `after` ns from now
fn satisfier(after: u64, f: impl FnOnce() + Send + 'static) -> Actor {
    rt::spawn_actor(Ctx::Thread, "satisfier", move || {
        engine::sleep(after);
        f();
    })
}

/// take an early event without blocking (`try` returns true once it is there): poll quickly at
/// first (the point is to take the value while its producer is still inside send / post), then
/// with virtual naps - the producer may be stalled, or starved by an unfair strategy as long as
/// we spin. No bound of our own: a producer that never delivers shows up as a hung verdict
fn take_early(_who: &str, mut try_take: impl FnMut() -> bool) {
    let mut spins = 0u32;
    while !try_take() {
        spins += 1;
        if spins < 64 {
            rt::relax();
        } else {
            rt::nap(20_000);
        }
    }
}

/// perform one timed wait; returns (timed_out, satisfied flag)
fn do_wait(w: &Wait, who: &str, helpers: &mut Vec<Actor>) -> bool {
    let d = Duration::from_nanos(w.d);
    let fired = Arc::new(AtomicBool::new(false));
    let f2 = fired.clone();
    match w.kind {
        Kind::Sleep => {
            if coroutine::is_coroutine() {
                coroutine::sleep(d);
            } else {
                // the thread-context fallback of may::coroutine::sleep
                coroutine::sleep(d);
            }
            true
        }
        Kind::MpscRecv => {
            let (tx, rx) = mpsc::channel::<u32>();
            if w.stale_wake {
                let tx3 = tx.clone();
                helpers.push(rt::spawn_actor(Ctx::Thread, "early-sender", move || {
                    let _ = tx3.send(5);
                }));
                take_early(who, || match rx.try_recv() {
                    Ok(5) => true,
                    Ok(v) => violation(&format!("received {} instead of the early 5", v)),
                    Err(_) => false,
                });
            }
            if let Some(a) = w.satisfy_after {
                let tx2 = tx.clone();
                helpers.push(satisfier(a, move || {
                    f2.store(true, Ordering::Relaxed);
                    let _ = tx2.send(7);
                }));
            }
            let r = rx.recv_timeout(d);
            drop(tx);
            match r {
                Ok(7) => false,
                Ok(v) => violation(&format!("{}: received {} from a channel that carries 7", who, v)),
                Err(std::sync::mpsc::RecvTimeoutError::Timeout) => true,
                Err(e) => violation(&format!("{}: mpsc recv_timeout reported {:?} with a live sender", who, e)),
            }
        }
        Kind::MpmcRecv => {
            let (tx, rx) = mpmc::channel::<u32>();
            if w.stale_wake {
                let tx3 = tx.clone();
                helpers.push(rt::spawn_actor(Ctx::Thread, "early-sender", move || {
                    let _ = tx3.send(5);
                }));
                take_early(who, || match rx.try_recv() {
                    Ok(5) => true,
                    Ok(v) => violation(&format!("received {} instead of the early 5", v)),
                    Err(_) => false,
                });
            }
            if let Some(a) = w.satisfy_after {
                let tx2 = tx.clone();
                helpers.push(satisfier(a, move || {
                    f2.store(true, Ordering::Relaxed);
                    let _ = tx2.send(7);
                }));
            }
            let r = rx.recv_timeout(d);
            drop(tx);
            match r {
                Ok(7) => false,
                Ok(v) => violation(&format!("{}: received {} from a channel that carries 7", who, v)),
                Err(std::sync::mpsc::RecvTimeoutError::Timeout) => true,
                Err(e) => violation(&format!("{}: mpmc recv_timeout reported {:?} with a live sender", who, e)),
            }
        }
        Kind::Sem => {
            let s = Arc::new(Semphore::new(0));
            if w.stale_wake {
                let s3 = s.clone();
                helpers.push(rt::spawn_actor(Ctx::Thread, "early-poster", move || s3.post()));
                take_early(who, || s.try_wait());
            }
            if let Some(a) = w.satisfy_after {
                let s2 = s.clone();
                helpers.push(satisfier(a, move || {
                    f2.store(true, Ordering::Relaxed);
                    s2.post();
                }));
            }
            !s.wait_timeout(d)
        }
        Kind::Flag => {
            let s = Arc::new(SyncFlag::new());
            if let Some(a) = w.satisfy_after {
                let s2 = s.clone();
                helpers.push(satisfier(a, move || {
                    f2.store(true, Ordering::Relaxed);
                    s2.fire();
                }));
            }
            !s.wait_timeout(d)
        }
        Kind::Cond => {
            let pair = Arc::new((Mutex::new(false), Condvar::new()));
            if let Some(a) = w.satisfy_after {
                let p2 = pair.clone();
                helpers.push(satisfier(a, move || {
                    f2.store(true, Ordering::Relaxed);
                    *p2.0.lock().unwrap() = true;
                    p2.1.notify_one();
                }));
            }
            let g = pair.0.lock().unwrap();
            if *g {
                return false;
            }
            let (g, res) = pair.1.wait_timeout(g, d).unwrap();
            let timed_out = res.timed_out();
            drop(g);
            timed_out
        }
        Kind::BlockerPark => {
            let b = Blocker::current();
            if let Some(a) = w.satisfy_after {
                let b2 = b.clone();
                helpers.push(satisfier(a, move || {
                    f2.store(true, Ordering::Relaxed);
                    b2.unpark();
                }));
            }
            match b.park(Some(d)) {
                Ok(()) => false,
                Err(coroutine::ParkError::Timeout) => true,
                Err(e) => violation(&format!("{}: Blocker::park reported {:?}", who, e)),
            }
        }
        Kind::CoParkTimeout => {
            if coroutine::is_coroutine() {
                let me = coroutine::current();
                if let Some(a) = w.satisfy_after {
                    helpers.push(satisfier(a, move || {
                        f2.store(true, Ordering::Relaxed);
                        me.unpark();
                    }));
                }
                coroutine::park_timeout(d);
            } else {
                // in thread context coroutine::park_timeout does nothing; use the sleep path
                coroutine::sleep(d);
            }
            // no result: only "it returns" and "not late" are checked
            !fired.load(Ordering::Relaxed)
        }
    }
}

pub fn run(seed: u64, mut ov: impl FnMut(&mut engine::Cfg)) -> ! {
    let p = gen(seed);
    let mut cfg = swarm_cfg(seed, &swarm());
    ov(&mut cfg);
    engine::init(cfg);
    engine::set_extra("params", engine::json_str(&format!("{:?}", p)));
    rt::boot(&p.rt);
    engine::set_diag(|| format!("in flight: {}", OPS.pending()));
    let quiet = engine::quiet();
    engine::set_extra("quiet", format!("{}", quiet));

    let mut actors: Vec<Actor> = Vec::new();
    let helpers_all: Arc<std::sync::Mutex<Vec<Actor>>> = Arc::new(std::sync::Mutex::new(Vec::new()));
    let mut total: u64 = 0;
    for (ai, (ctx, waits)) in p.actors.iter().cloned().enumerate() {
        total = total.max(waits.iter().map(|w| ceil_ms(w.d) + 2_000_000 + w.satisfy_after.unwrap_or(0)).sum());
        let name = format!("actor{}", ai);
        let nm = name.clone();
        let helpers_all = helpers_all.clone();
        actors.push(rt::spawn_actor(ctx, &name, move || {
            for (k, w) in waits.iter().enumerate() {
                let o = OPS.begin(format!("{} wait{} {:?}", nm, k, w));
                let mut helpers = Vec::new();
                let t0 = engine::now();
                let timed_out = do_wait(w, &nm, &mut helpers);
                let t1 = engine::now();
                o.done();
                helpers_all.lock().unwrap().extend(helpers);
                let spurious_ok = w.kind == Kind::CoParkTimeout && coroutine::is_coroutine();
                // (a) never early
                if timed_out && t1 < t0 + w.d && !spurious_ok {
                    violation(&format!(
                        "{}: {:?} with d = {} ns returned (timeout) after only {} ns",
                        nm,
                        w.kind,
                        w.d,
                        t1 - t0
                    ));
                }
                // a wait nobody satisfied must time out, not "succeed"
                if !timed_out && w.satisfy_after.is_none() && w.kind != Kind::Sleep {
                    violation(&format!("{}: {:?} reported success although nothing was ever sent/posted/fired", nm, w.kind));
                }
                // (c) promptness, only when nothing but scripted events moves the clock
                if quiet {
                    let exact_ctx = !coroutine::is_coroutine();
                    let bound = if w.kind == Kind::Sleep || exact_ctx {
                        // ns-exact paths: coroutine sleep (timer list keeps ns), thread waits
                        t0 + w.d
                    } else {
                        // Park based: whole milliseconds, at least one
                        t0 + ceil_ms(w.d)
                    };
                    let slack = 1_000_000;
                    if timed_out && t1 > bound + slack {
                        violation(&format!(
                            "{}: {:?} with d = {} ns fired {} ns after its deadline although nothing delayed it (late timer)",
                            nm,
                            w.kind,
                            w.d,
                            t1 - bound
                        ));
                    }
                }
            }
        }));
    }
    let deadline = engine::now() + total + 50_000_000;
    engine::set_vt_limit(deadline + 10_000_000);
    rt::await_actors(&actors, deadline);
    let hs: Vec<Actor> = std::mem::take(&mut *helpers_all.lock().unwrap());
    rt::await_actors(&hs, deadline + 5_000_000);
    for a in actors.iter_mut() {
        rt::expect_end(a, false);
    }
    engine::finish_ok()
}

// ------------------------------------------------------------------------------------------------
// aimed: two coroutines arm a timer of the same, never used duration at the same moment; one of
// them is held up between missing the interval list under the read lock and taking the write
// lock, for longer than the duration: the other one's timer has fired and the timer thread has
// found the new list empty by then. The late push is the head of an empty list that is in no heap:
// whoever pushes onto an empty list installs it, on every path
// ------------------------------------------------------------------------------------------------

pub fn run_aimed(seed: u64, mut ov: impl FnMut(&mut engine::Cfg)) -> ! {
    let mut r = gen_rng(seed);
    let d = *r.pick(&[1_000u64, 300_000, 999_999, 1_000_000, 1_500_000]);
    let nth = r.below(4) as u32;
    let extra = *r.pick(&[200_000u64, 1_000_000, 3_000_000]);
    let followers = r.below(3) as usize;
    let mut cfg = swarm_cfg(seed, &Swarm { stalls: false, ..swarm() });
    cfg.tick_ns = 25;
    ov(&mut cfg);
    engine::init(cfg);
    engine::set_extra("params", engine::json_str(&format!("aimed: d {} nth {} extra {} followers {}", d, nth, extra, followers)));
    rt::boot(&RtCfg { workers: 2, pool_cap: 8, stack_size: 0x8000, poll_ns: 10_000_000 });
    engine::set_diag(|| format!("in flight: {}", OPS.pending()));
    engine::set_vt_limit(engine::now() + 400_000_000);
    let go = Arc::new(AtomicBool::new(false));
    let mut hs = Vec::new();
    for k in 0..2 + followers {
        let go = go.clone();
        let h = unsafe {
            coroutine::Builder::new()
                .id(k % 2)
                .spawn(move || {
                    rt::wait_flag(&go, usize::MAX);
                    if k >= 2 {
                        // later timers of exactly that duration queue behind the stranded one
                        coroutine::sleep(Duration::from_nanos(d + extra + 1_000_000));
                    }
                    if k == 1 {
                        engine::stall_self_at_site("src/verif.rs", "lock", nth, ceil_ms(d) + extra);
                    }
                    let t0 = engine::now();
                    coroutine::sleep(Duration::from_nanos(d));
                    let t1 = engine::now();
                    engine::disarm_stall();
                    if t1 < t0 + d {
                        violation(&format!("sleep({} ns) returned after {} ns", d, t1 - t0));
                    }
                })
                .unwrap()
        };
        hs.push(h);
    }
    rt::set_flag(&go);
    for (k, h) in hs.into_iter().enumerate() {
        let o = OPS.begin(format!("join of sleeper {} (sleep {} ns)", k, d));
        let _ = h.join();
        o.done();
    }
    engine::finish_ok()
}


// ------------------------------------------------------------------------------------------------
// many distinct durations: the timer list keeps one queue per duration and starts to drop drained
// queues once more than 1024 exist (a long-running program that computes "time left" timeouts gets
// there quickly). Timed waits must go on working - and nothing may be freed that somebody still
// holds a handle to - after that point
// ------------------------------------------------------------------------------------------------

pub fn run_many(seed: u64, mut ov: impl FnMut(&mut engine::Cfg)) -> ! {
    let mut r = gen_rng(seed);
    let fill = 1026 + r.below(6) as u64;
    let base = 1 + r.below(50_000);
    let waits = r.range(1, 3) as usize;
    let kind = r.below(3);
    let mut cfg = swarm_cfg(seed, &Swarm { stalls: false, max_steps: 2_500_000, ..swarm() });
    // poison mode makes a use of freed timer nodes visible at once
    if cfg.alloc_mode == 0 {
        cfg.alloc_mode = 2;
    }
    ov(&mut cfg);
    engine::init(cfg);
    engine::set_extra("params", engine::json_str(&format!("many durations: fill {} base {} waits {} kind {}", fill, base, waits, kind)));
    rt::boot(&RtCfg { workers: 1 + (seed % 2) as usize, pool_cap: 8, stack_size: 0x8000, poll_ns: 1_000_000_000 });
    engine::set_diag(|| format!("in flight: {}", OPS.pending()));
    engine::set_vt_limit(engine::now() + 5_000_000_000);
    let h = unsafe {
        coroutine::spawn(move || {
            for i in 0..fill {
                coroutine::sleep(Duration::from_nanos(base + i));
            }
            // from here on a drained queue is dropped by the timer thread
            for k in 0..waits {
                let d = 1_000_000 * (1 + k as u64) + 1;
                let t0 = engine::now();
                let o = OPS.begin(format!("timed wait {} of kind {} for {} ns after {} distinct durations", k, kind, d, fill));
                match kind {
                    0 => match Blocker::current().park(Some(Duration::from_nanos(d))) {
                        Err(may::coroutine::ParkError::Timeout) => {}
                        r => violation(&format!("Blocker::park({} ns) with nobody to unpark it returned {:?}", d, r)),
                    },
                    1 => {
                        let s = Semphore::new(0);
                        if s.wait_timeout(Duration::from_nanos(d)) {
                            violation("wait_timeout on an empty semaphore succeeded");
                        }
                    }
                    _ => {
                        let (_tx, rx) = mpsc::channel::<u32>();
                        if rx.recv_timeout(Duration::from_nanos(d)).is_ok() {
                            violation("recv_timeout on an empty channel returned a value");
                        }
                    }
                }
                o.done();
                let t1 = engine::now();
                if t1 < t0 + d {
                    violation(&format!("timed wait of {} ns returned after {} ns", d, t1 - t0));
                }
                coroutine::sleep(Duration::from_nanos(base + fill + k as u64));
            }
        })
    };
    let o = OPS.begin("join of the sleeper".to_string());
    if let Err(e) = h.join() {
        violation(&format!("the coroutine ended with a panic: {}", crate::panic_msg(&e)));
    }
    o.done();
    // the runtime (and its heap) still works
    let h = unsafe { coroutine::spawn(|| coroutine::sleep(Duration::from_micros(3))) };
    let _ = h.join();
    engine::finish_ok()
}
