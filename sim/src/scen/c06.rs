//! C06 / C07 — channels (mpsc, spsc, mpmc): exactly-once delivery in per-sender order,
//! disconnect always observed, values left behind dropped exactly once

use crate::engine::{self, violation};
use crate::oracle::{tok_state, Tok};
use crate::rt::{self, Actor, Ctx, RtCfg, OPS};
use crate::{gen_rng, swarm_cfg, Swarm};
use may::sync::{mpmc, mpsc, spsc};
use std::sync::atomic::{AtomicBool, AtomicU32, Ordering};
use std::sync::mpsc::{RecvTimeoutError, TryRecvError};
use std::sync::{Arc, Mutex};
use std::time::Duration;

pub fn swarm() -> Swarm {
    Swarm {
        alloc_modes: true,
        stalls: true,
        stall_max_ns: 2_000_000,
        spurious_park: true,
        est_len: 5000,
        max_steps: 800_000,
        ..Default::default()
    }
}

#[derive(Debug, Clone, Copy, PartialEq)]
pub enum Flavor {
    Mpsc,
    Spsc,
    Mpmc,
}

#[derive(Debug, Clone)]
enum ROp {
    Recv,
    TryRecv,
    RecvTimeout(u64),
    Iter,
}

#[derive(Debug)]
struct Params {
    rt: RtCfg,
    flavor: Flavor,
    senders: Vec<(Ctx, usize, u32)>, // ctx, number of values, dally between sends
    receivers: Vec<(Ctx, Vec<ROp>)>,
    preroll: usize,
    /// receivers stop and drop their end after this many values (C07 second half)
    rx_quit_after: Option<usize>,
    /// main keeps the original sender for this many yield points before dropping it
    main_hold: u32,
    /// senders keep their end until every value has been received: a receiver that a send
    /// failed to wake is not rescued by the disconnect
    linger: bool,
    /// receiver 0 starts with a recv_timeout(d): every sender sleeps until shortly before that
    /// time-out expires, then sends and drops its end at once (send + disconnect racing with
    /// the expiry); value = how much earlier than d
    aim_expiry: Option<u64>,
}

const DURS: [u64; 5] = [1_000, 500_000, 1_000_000, 1_500_000, 3_000_000];

fn gen(seed: u64, only: Option<Flavor>) -> Params {
    let mut r = gen_rng(seed);
    let rt = RtCfg::gen(&mut r, 3);
    let flavor = only.unwrap_or_else(|| *r.pick(&[Flavor::Mpsc, Flavor::Spsc, Flavor::Mpmc]));
    let ns = if flavor == Flavor::Spsc { 1 } else { r.range(1, 3) as usize };
    let nr = if flavor == Flavor::Mpmc { r.range(1, 3) as usize } else { 1 };
    let senders = (0..ns).map(|_| (Ctx::gen(&mut r), r.range(0, 6) as usize, r.below(5) as u32)).collect();
    let receivers = (0..nr)
        .map(|_| {
            let ops = (0..6)
                .map(|_| match r.below(100) {
                    0..=44 => ROp::Recv,
                    45..=64 => ROp::TryRecv,
                    65..=84 => ROp::RecvTimeout(*r.pick(&DURS)),
                    _ => ROp::Iter,
                })
                .collect();
            (Ctx::gen(&mut r), ops)
        })
        .collect();
    let block = match flavor {
        Flavor::Mpsc => 64,
        Flavor::Spsc => 32,
        Flavor::Mpmc => 31,
    };
    let preroll = match r.below(10) {
        0..=4 => 0,
        5..=8 => block - 4 + r.below(6) as usize,
        _ => 2 * block - 3 + r.below(5) as usize,
    };
    let rx_quit_after = if r.chance(1, 4) { Some(r.below(4) as usize) } else { None };
    let mut p = Params { rt, flavor, senders, receivers, preroll, rx_quit_after, main_hold: r.below(10) as u32, linger: false, aim_expiry: None };
    // drawn last: everything above is the same as before these fields existed
    p.linger = r.chance(1, 2) && p.rx_quit_after.is_none();
    if let Some(ROp::RecvTimeout(_)) = p.receivers[0].1.first() {
        if r.chance(1, 2) {
            p.aim_expiry = Some(*r.pick(&[0u64, 50, 500, 5_000, 50_000]));
            p.linger = false;
        }
    }
    p
}

enum Tx {
    Mpsc(mpsc::Sender<Tok>),
    Spsc(spsc::Sender<Tok>),
    Mpmc(mpmc::Sender<Tok>),
}

enum Rx {
    Mpsc(mpsc::Receiver<Tok>),
    Spsc(spsc::Receiver<Tok>),
    Mpmc(mpmc::Receiver<Tok>),
}

impl Tx {
    fn send(&self, t: Tok) -> Result<(), Tok> {
        match self {
            Tx::Mpsc(s) => s.send(t).map_err(|e| e.0),
            Tx::Spsc(s) => s.send(t).map_err(|e| e.0),
            Tx::Mpmc(s) => s.send(t).map_err(|e| e.0),
        }
    }
    fn try_clone(&self) -> Option<Tx> {
        match self {
            Tx::Mpsc(s) => Some(Tx::Mpsc(s.clone())),
            Tx::Spsc(_) => None,
            Tx::Mpmc(s) => Some(Tx::Mpmc(s.clone())),
        }
    }
}

#[derive(Debug)]
enum RErr {
    Empty,
    Timeout,
    Disconnected,
}

impl Rx {
    fn recv(&self) -> Result<Tok, RErr> {
        match self {
            Rx::Mpsc(r) => r.recv().map_err(|_| RErr::Disconnected),
            Rx::Spsc(r) => r.recv().map_err(|_| RErr::Disconnected),
            Rx::Mpmc(r) => r.recv().map_err(|_| RErr::Disconnected),
        }
    }
    fn try_recv(&self) -> Result<Tok, RErr> {
        let m = |e: TryRecvError| match e {
            TryRecvError::Empty => RErr::Empty,
            TryRecvError::Disconnected => RErr::Disconnected,
        };
        match self {
            Rx::Mpsc(r) => r.try_recv().map_err(m),
            Rx::Spsc(r) => r.try_recv().map_err(m),
            Rx::Mpmc(r) => r.try_recv().map_err(m),
        }
    }
    fn recv_timeout(&self, d: Duration) -> Result<Tok, RErr> {
        let m = |e: RecvTimeoutError| match e {
            RecvTimeoutError::Timeout => RErr::Timeout,
            RecvTimeoutError::Disconnected => RErr::Disconnected,
        };
        match self {
            Rx::Mpsc(r) => r.recv_timeout(d).map_err(m),
            // spsc has no timed receive
            Rx::Spsc(r) => r.recv().map_err(|_| RErr::Disconnected),
            Rx::Mpmc(r) => r.recv_timeout(d).map_err(m),
        }
    }
    fn iter_next(&self) -> Option<Tok> {
        match self {
            Rx::Mpsc(r) => r.iter().next(),
            Rx::Spsc(r) => r.iter().next(),
            Rx::Mpmc(r) => r.iter().next(),
        }
    }
    fn try_clone(&self) -> Option<Rx> {
        match self {
            Rx::Mpmc(r) => Some(Rx::Mpmc(r.clone())),
            _ => None,
        }
    }
}

static SENT_OK: AtomicU32 = AtomicU32::new(0);
static RECEIVED: AtomicU32 = AtomicU32::new(0);
static TOTAL: AtomicU32 = AtomicU32::new(u32::MAX);
static ALL_RECEIVED: std::sync::atomic::AtomicBool = std::sync::atomic::AtomicBool::new(false);
static RX_ALL_DROPPED: AtomicBool = AtomicBool::new(false);
static RX_LEFT: AtomicU32 = AtomicU32::new(0);
static RX_DROP_BEGUN: AtomicU32 = AtomicU32::new(0);
static N_RX: AtomicU32 = AtomicU32::new(0);

pub fn run(seed: u64, only: Option<Flavor>, mut ov: impl FnMut(&mut engine::Cfg)) -> ! {
    let p = gen(seed, only);
    let mut cfg = swarm_cfg(seed, &swarm());
    ov(&mut cfg);
    engine::init(cfg);
    engine::set_extra("params", engine::json_str(&format!("{:?}", p)));
    rt::boot(&p.rt);
    engine::set_diag(|| format!("in flight: {}", OPS.pending()));

    let (tx, rx) = match p.flavor {
        Flavor::Mpsc => {
            let (t, r) = mpsc::channel();
            (Tx::Mpsc(t), Rx::Mpsc(r))
        }
        Flavor::Spsc => {
            let (t, r) = spsc::channel();
            (Tx::Spsc(t), Rx::Spsc(r))
        }
        Flavor::Mpmc => {
            let (t, r) = mpmc::channel();
            (Tx::Mpmc(t), Rx::Mpmc(r))
        }
    };
    // sequential pre-roll so that the concurrent phase straddles a queue block boundary
    for k in 0..p.preroll {
        let id = 3000 + k as u32;
        if tx.send(Tok::new(id)).is_err() {
            violation("preroll send failed");
        }
        match rx.try_recv() {
            Ok(t) => {
                if t.id() != id {
                    violation(&format!("preroll: sent {} received {}", id, t.id()));
                }
            }
            Err(e) => violation(&format!("preroll: value {} not received: {:?}", id, e)),
        }
    }

    let all_ids: Arc<Mutex<Vec<u32>>> = Arc::new(Mutex::new(Vec::new()));
    let mut actors: Vec<Actor> = Vec::new();
    // receivers
    let n_rx = p.receivers.len();
    RX_LEFT.store(n_rx as u32, Ordering::Relaxed);
    N_RX.store(n_rx as u32, Ordering::Relaxed);
    let mut rxs: Vec<Rx> = Vec::new();
    for _ in 1..n_rx {
        rxs.push(rx.try_clone().expect("mpmc receiver clone"));
    }
    rxs.push(rx);
    for (ri, ((ctx, ops), rx)) in p.receivers.iter().cloned().zip(rxs.into_iter()).enumerate() {
        let name = format!("receiver{}", ri);
        let nm = name.clone();
        let quit_after = p.rx_quit_after;
        let n_senders = p.senders.len();
        let multi_rx = n_rx > 1;
        actors.push(rt::spawn_actor(ctx, &name, move || {
            let mut last: Vec<i64> = vec![-1; n_senders];
            let mut got = 0usize;
            let mut k = 0usize;
            let mut empties = 0u32;
            let take = |t: Tok, last: &mut Vec<i64>| {
                let id = t.id();
                let s = (id / 100) as usize;
                let seq = (id % 100) as i64;
                if s >= last.len() {
                    violation(&format!("{}: received a value {} that nobody sent", nm, id));
                }
                if seq <= last[s] {
                    violation(&format!(
                        "{}: values of sender {} received out of order ({} after {})",
                        nm, s, seq, last[s]
                    ));
                }
                last[s] = seq;
                if RECEIVED.fetch_add(1, Ordering::Relaxed) + 1 == TOTAL.load(Ordering::Relaxed) {
                    rt::set_flag(&ALL_RECEIVED);
                }
                drop(t);
            };
            loop {
                if let Some(q) = quit_after {
                    if got >= q {
                        break;
                    }
                }
                let op = ops[k % ops.len()].clone();
                k += 1;
                let o = OPS.begin(format!("{} {:?}", nm, op));
                let r = match op {
                    ROp::Recv => rx.recv(),
                    ROp::TryRecv => {
                        let r = rx.try_recv();
                        if matches!(r, Err(RErr::Empty)) {
                            // back off: a pure yield loop starves coroutines waiting in the
                            // global queue of this worker (not one of the listed properties)
                            empties += 1;
                            if empties < 4 {
                                rt::relax();
                            } else {
                                rt::nap(20_000 << (empties.min(10) - 4));
                            }
                        }
                        r
                    }
                    ROp::RecvTimeout(d) => {
                        let t0 = engine::now();
                        let r = rx.recv_timeout(Duration::from_nanos(d));
                        let t1 = engine::now();
                        if matches!(r, Err(RErr::Timeout)) && t1 < t0 + d {
                            violation(&format!("{}: recv_timeout({} ns) timed out after {} ns", nm, d, t1 - t0));
                        }
                        r
                    }
                    ROp::Iter => rx.iter_next().ok_or(RErr::Disconnected),
                };
                o.done();
                match r {
                    Ok(t) => {
                        got += 1;
                        take(t, &mut last);
                    }
                    Err(RErr::Empty) | Err(RErr::Timeout) => {}
                    Err(RErr::Disconnected) => {
                        // stays disconnected, and nothing is left. With several mpmc receivers
                        // a value may still be in flight to ANOTHER receiver (which holds its
                        // permit) when this one is told Disconnected, so this is only checked
                        // for a single receiver
                        if multi_rx {
                            break;
                        }
                        for _ in 0..2 {
                            match rx.try_recv() {
                                Err(RErr::Disconnected) => {}
                                Ok(t) => violation(&format!("{}: value {} received after Disconnected was reported", nm, t.id())),
                                Err(e) => violation(&format!("{}: {:?} after Disconnected was reported", nm, e)),
                            }
                        }
                        match rx.recv() {
                            Err(RErr::Disconnected) => {}
                            _ => violation(&format!("{}: recv() after Disconnected did not report Disconnected", nm)),
                        }
                        break;
                    }
                }
                if k > 400 {
                    violation(&format!("{}: 400 receive operations without seeing the disconnect", nm));
                }
            }
            RX_DROP_BEGUN.fetch_add(1, Ordering::Relaxed);
            drop(rx);
            if RX_LEFT.fetch_sub(1, Ordering::Relaxed) == 1 {
                RX_ALL_DROPPED.store(true, Ordering::Relaxed);
            }
        }));
    }
    // senders: each works on its own clone (spsc: the only sender moves)
    let mut txs: Vec<Tx> = Vec::new();
    let mut orig = Some(tx);
    for _ in 0..p.senders.len() {
        match orig.as_ref().unwrap().try_clone() {
            Some(c) => txs.push(c),
            None => txs.push(orig.take().unwrap()),
        }
    }
    let linger = p.linger;
    let aim: Option<u64> = match (p.aim_expiry, p.receivers[0].1.first()) {
        (Some(early), Some(ROp::RecvTimeout(d))) => Some(d.saturating_sub(early)),
        _ => None,
    };
    TOTAL.store(p.senders.iter().map(|s| s.1 as u32).sum(), Ordering::Relaxed);
    for (si, ((ctx, n, dally), tx)) in p.senders.iter().cloned().zip(txs.into_iter()).enumerate() {
        let all_ids = all_ids.clone();
        let name = format!("sender{}", si);
        let nm = name.clone();
        actors.push(rt::spawn_actor(ctx, &name, move || {
            for k in 0..n {
                rt::dally(dally);
                if let (Some(t), true) = (aim, k + 1 == n) {
                    rt::nap(t);
                }
                let id = (si * 100 + k) as u32;
                all_ids.lock().unwrap().push(id);
                let rx_gone = RX_ALL_DROPPED.load(Ordering::Relaxed);
                match tx.send(Tok::new(id)) {
                    Ok(()) => {
                        SENT_OK.fetch_add(1, Ordering::Relaxed);
                        if rx_gone {
                            violation(&format!("{}: send succeeded after the last receiver's drop had returned", nm));
                        }
                    }
                    Err(t) => {
                        if t.id() != id {
                            violation(&format!("{}: failed send of {} handed back {}", nm, id, t.id()));
                        }
                        if RX_DROP_BEGUN.load(Ordering::Relaxed) < N_RX.load(Ordering::Relaxed) {
                            violation(&format!("{}: send failed although a receiver is still alive", nm));
                        }
                        drop(t);
                    }
                }
            }
            if linger && TOTAL.load(Ordering::Relaxed) > 0 {
                // every receiver runs until the disconnect, so every value is received; a
                // receiver left asleep with a value queued keeps us (and the run) waiting
                let o = OPS.begin(format!("{} keeps its end until all values are received", nm));
                while !rt::wait_flag(&ALL_RECEIVED, 64) {}
                o.done();
            }
            drop(tx);
        }));
    }
    // the original sender (mpsc / mpmc) is dropped by main after a while
    for _ in 0..p.main_hold {
        engine::yield_point();
    }
    drop(orig);

    let deadline = engine::now() + 120_000_000;
    engine::set_vt_limit(deadline + 1_000_000);
    rt::await_actors(&actors, deadline);
    for a in actors.iter_mut() {
        rt::expect_end(a, false);
    }
    // every value is accounted for exactly once: received, handed back, or dropped with
    // the channel (all endpoints are gone now)
    let ids = all_ids.lock().unwrap().clone();
    for id in &ids {
        match tok_state(*id) {
            2 => {}
            1 => violation(&format!("value {} is still alive after every endpoint was dropped (leaked, never dropped)", id)),
            s => violation(&format!("value {} in state {}", id, s)),
        }
    }
    if p.rx_quit_after.is_none() {
        let s = SENT_OK.load(Ordering::Relaxed);
        let r = RECEIVED.load(Ordering::Relaxed);
        if s != r {
            violation(&format!("{} values sent successfully but {} received (receivers ran until disconnect)", s, r));
        }
    }
    engine::finish_ok()
}
