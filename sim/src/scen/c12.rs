//! C12 — RwLock: writers exclusive; lock free again once all guards are dropped
//! (clean and poisoned state, guards recovered from PoisonError, cancel of waiters)

use crate::engine::{self, violation};
use crate::oracle::Scripted;
use crate::rt::{self, Actor, Ctx, RtCfg, OPS};
use crate::{gen_rng, swarm_cfg, Swarm};
use may::sync::RwLock;
use std::sync::atomic::{AtomicBool, AtomicU32, Ordering};
use std::sync::{Arc, TryLockError};

pub fn swarm() -> Swarm {
    Swarm {
        alloc_modes: true,
        stalls: true,
        stall_max_ns: 2_000_000,
        est_len: 5000,
        max_steps: 600_000,
        ..Default::default()
    }
}

#[derive(Debug, Clone)]
enum Inside {
    Nothing,
    Yield,
    Sleep(u64),
}

#[derive(Debug, Clone)]
enum Op {
    Read(Inside),
    Write(Inside),
    TryRead(Inside),
    TryWrite(Inside),
    Dally(u32),
}

#[derive(Debug)]
struct Params {
    rt: RtCfg,
    poison: Option<Ctx>,
    actors: Vec<(Ctx, Vec<Op>)>,
    cancel: Option<(usize, u32)>,
}

fn gen(seed: u64) -> Params {
    let mut r = gen_rng(seed);
    let rt = RtCfg::gen(&mut r, 3);
    let poison = if r.chance(2, 5) { Some(Ctx::gen(&mut r)) } else { None };
    let n = r.range(2, 4) as usize;
    let mut actors = Vec::new();
    for _ in 0..n {
        let ctx = Ctx::gen(&mut r);
        let k = r.range(1, 4) as usize;
        let ops = (0..k)
            .map(|_| {
                let inside = match r.below(10) {
                    0..=3 => Inside::Nothing,
                    4..=7 => Inside::Yield,
                    _ => Inside::Sleep(*r.pick(&[1_000u64, 300_000, 1_000_000])),
                };
                match r.below(100) {
                    0..=29 => Op::Read(inside),
                    30..=54 => Op::Write(inside),
                    55..=72 => Op::TryRead(inside),
                    73..=89 => Op::TryWrite(inside),
                    _ => Op::Dally(r.below(6) as u32),
                }
            })
            .collect();
        actors.push((ctx, ops));
    }
    let cos: Vec<usize> = (0..n).filter(|&i| actors[i].0 == Ctx::Co).collect();
    let cancel = if !cos.is_empty() && r.chance(1, 4) {
        Some((*r.pick(&cos), r.below(60) as u32))
    } else {
        None
    };
    Params { rt, poison, actors, cancel }
}

static READERS: AtomicU32 = AtomicU32::new(0);
static WRITERS: AtomicU32 = AtomicU32::new(0);
static POISONED: AtomicBool = AtomicBool::new(false);

struct RGuard;
impl RGuard {
    fn enter(who: &str) -> RGuard {
        let w = WRITERS.load(Ordering::Relaxed);
        if w != 0 {
            violation(&format!("{} got a read guard while {} writer(s) hold the lock", who, w));
        }
        READERS.fetch_add(1, Ordering::Relaxed);
        RGuard
    }
}
impl Drop for RGuard {
    fn drop(&mut self) {
        READERS.fetch_sub(1, Ordering::Relaxed);
    }
}

struct WGuard;
impl WGuard {
    fn enter(who: &str) -> WGuard {
        let w = WRITERS.load(Ordering::Relaxed);
        let r = READERS.load(Ordering::Relaxed);
        if w != 0 || r != 0 {
            violation(&format!(
                "{} got a write guard while {} writer(s) and {} reader(s) hold the lock",
                who, w, r
            ));
        }
        WRITERS.fetch_add(1, Ordering::Relaxed);
        WGuard
    }
}
impl Drop for WGuard {
    fn drop(&mut self) {
        WRITERS.fetch_sub(1, Ordering::Relaxed);
    }
}

fn hold(inside: &Inside) {
    match inside {
        Inside::Nothing => engine::point(),
        Inside::Yield => rt::relax(),
        Inside::Sleep(ns) => rt::nap(*ns),
    }
}

fn note_poison(who: &str, what: &str) {
    if !POISONED.load(Ordering::Relaxed) {
        violation(&format!("{}: {} reported poison but no writer ever panicked", who, what));
    }
}

pub fn run(seed: u64, mut ov: impl FnMut(&mut engine::Cfg)) -> ! {
    let p = gen(seed);
    let mut cfg = swarm_cfg(seed, &swarm());
    ov(&mut cfg);
    engine::init(cfg);
    engine::set_extra("params", engine::json_str(&format!("{:?}", p)));
    rt::boot(&p.rt);
    engine::set_diag(|| format!("in flight: {}", OPS.pending()));

    let l = Arc::new(RwLock::new(0u64));
    if let Some(ctx) = p.poison {
        // a writer panics while holding the guard, before the concurrent phase
        let l2 = l.clone();
        let a = rt::spawn_actor(ctx, "poisoner", move || {
            POISONED.store(true, Ordering::Relaxed);
            let r = std::panic::catch_unwind(std::panic::AssertUnwindSafe(|| {
                let _g = l2.write().unwrap();
                std::panic::panic_any(Scripted(99));
            }));
            if r.is_ok() {
                violation("harness: poisoner did not panic");
            }
        });
        rt::await_actors(std::slice::from_ref(&a), engine::now() + 20_000_000);
        if !l.is_poisoned() {
            violation("a write guard dropped by a panic did not poison the lock");
        }
    }
    let mut actors: Vec<Actor> = Vec::new();
    for (ai, (ctx, ops)) in p.actors.iter().cloned().enumerate() {
        let l = l.clone();
        let name = format!("actor{}", ai);
        let nm = name.clone();
        actors.push(rt::spawn_actor(ctx, &name, move || {
            for (k, op) in ops.iter().enumerate() {
                match op {
                    Op::Dally(n) => rt::dally(*n),
                    Op::Read(inside) => {
                        let o = OPS.begin(format!("{} op{} read()", nm, k));
                        let r = l.read();
                        o.done();
                        let g = match r {
                            Ok(g) => g,
                            Err(e) => {
                                note_poison(&nm, "read()");
                                e.into_inner()
                            }
                        };
                        let occ = RGuard::enter(&nm);
                        let v = *g;
                        hold(inside);
                        if *g != v {
                            violation(&format!("{}: data changed while a read guard was held", nm));
                        }
                        drop(occ);
                        drop(g);
                    }
                    Op::Write(inside) => {
                        let o = OPS.begin(format!("{} op{} write()", nm, k));
                        let r = l.write();
                        o.done();
                        let mut g = match r {
                            Ok(g) => g,
                            Err(e) => {
                                note_poison(&nm, "write()");
                                e.into_inner()
                            }
                        };
                        let occ = WGuard::enter(&nm);
                        let v = *g;
                        hold(inside);
                        if *g != v {
                            violation(&format!("{}: data changed while the write guard was held", nm));
                        }
                        *g = v + 1;
                        drop(occ);
                        drop(g);
                    }
                    Op::TryRead(inside) => match l.try_read() {
                        Ok(g) => {
                            let occ = RGuard::enter(&nm);
                            hold(inside);
                            drop(occ);
                            drop(g);
                        }
                        Err(TryLockError::Poisoned(e)) => {
                            note_poison(&nm, "try_read()");
                            let g = e.into_inner();
                            let occ = RGuard::enter(&nm);
                            hold(inside);
                            drop(occ);
                            drop(g);
                        }
                        Err(TryLockError::WouldBlock) => {}
                    },
                    Op::TryWrite(inside) => match l.try_write() {
                        Ok(mut g) => {
                            let occ = WGuard::enter(&nm);
                            let v = *g;
                            hold(inside);
                            *g = v + 1;
                            drop(occ);
                            drop(g);
                        }
                        Err(TryLockError::Poisoned(e)) => {
                            note_poison(&nm, "try_write()");
                            let mut g = e.into_inner();
                            let occ = WGuard::enter(&nm);
                            let v = *g;
                            hold(inside);
                            *g = v + 1;
                            drop(occ);
                            drop(g);
                        }
                        Err(TryLockError::WouldBlock) => {}
                    },
                }
            }
        }));
    }
    let n_script = actors.len();
    let cancel_flag = Arc::new(AtomicBool::new(false));
    if let Some((ai, k)) = p.cancel {
        let co = actors[ai].co.as_ref().unwrap().coroutine().clone();
        actors.push(rt::spawn_canceller(vec![(k, co, cancel_flag.clone())]));
    }
    let deadline = engine::now() + 80_000_000;
    engine::set_vt_limit(deadline + 1_000_000);
    rt::await_actors(&actors, deadline);
    for ai in 0..n_script {
        let target = p.cancel.map(|c| c.0 == ai).unwrap_or(false);
        rt::expect_end(&mut actors[ai], target);
    }
    // every guard is gone: the lock must be free again
    match l.try_write() {
        Ok(g) => drop(g),
        Err(TryLockError::Poisoned(e)) => drop(e.into_inner()),
        Err(TryLockError::WouldBlock) => violation("try_write fails after all guards were dropped: the lock did not get free again"),
    };
    match l.try_read() {
        Ok(g) => drop(g),
        Err(TryLockError::Poisoned(e)) => drop(e.into_inner()),
        Err(TryLockError::WouldBlock) => violation("try_read fails after all guards were dropped"),
    };
    match l.try_write() {
        Ok(g) => drop(g),
        Err(TryLockError::Poisoned(e)) => drop(e.into_inner()),
        Err(TryLockError::WouldBlock) => violation("try_write fails after a try_read guard was dropped: the reader count is corrupt"),
    };
    if p.poison.is_none() && l.is_poisoned() {
        violation("lock poisoned although no writer panicked (only a cancellation unwound)");
    }
    engine::finish_ok()
}
