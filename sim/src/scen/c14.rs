//! C14 — a scope (coroutine::scope, join!, cqueue::scope, select!) is never left while one
//! of its coroutines is still running, also when the owner panics or is cancelled

use crate::engine::{self, violation};
use crate::oracle::Scripted;
use crate::rt::{self, Actor, Ctx, RtCfg, OPS};
use crate::{gen_rng, swarm_cfg, Swarm};
use may::coroutine;
use std::sync::atomic::{AtomicBool, AtomicU32, Ordering};
use std::sync::Arc;
use std::time::Duration;

pub fn swarm() -> Swarm {
    Swarm {
        alloc_modes: true,
        stalls: true,
        stall_max_ns: 2_000_000,
        est_len: 5000,
        max_steps: 700_000,
        ..Default::default()
    }
}

/// Stands for the owner's stack frame: children hold only the flag (heap), its Drop runs
/// exactly when the enclosing frame would be released, on return and on unwinding alike.
struct Frame {
    dead: Arc<AtomicBool>,
}

impl Frame {
    fn new() -> Frame {
        Frame { dead: Arc::new(AtomicBool::new(false)) }
    }
}

impl Drop for Frame {
    fn drop(&mut self) {
        self.dead.store(true, Ordering::Relaxed);
    }
}

static CHILD_STARTED: AtomicU32 = AtomicU32::new(0);
static CHILD_ENDED: AtomicU32 = AtomicU32::new(0);

#[derive(Debug, Clone)]
enum Step {
    Yield,
    Sleep(u64),
}

#[derive(Debug, Clone)]
struct Child {
    steps: Vec<Step>,
    panics: bool,
}

struct ChildEnd;
impl Drop for ChildEnd {
    fn drop(&mut self) {
        rt::bump(&CHILD_ENDED);
    }
}

fn child_body(id: u32, c: &Child, dead: &AtomicBool, what: &str) -> u32 {
    CHILD_STARTED.fetch_add(1, Ordering::Relaxed);
    let _end = ChildEnd;
    let check = |at: &str| {
        if dead.load(Ordering::Relaxed) {
            violation(&format!(
                "{} child {} is still running ({}) after the owner has left the scope: borrowed frame is gone",
                what, id, at
            ));
        }
    };
    check("start");
    for (k, s) in c.steps.iter().enumerate() {
        match s {
            Step::Yield => coroutine::yield_now(),
            Step::Sleep(ns) => coroutine::sleep(Duration::from_nanos(*ns)),
        }
        check(&format!("after step {}", k));
    }
    if c.panics {
        std::panic::panic_any(Scripted(id));
    }
    check("end");
    id
}

fn gen_children(r: &mut crate::rng::Rng, n: usize, allow_panic: bool) -> Vec<Child> {
    (0..n)
        .map(|_| {
            let k = r.range(0, 5) as usize;
            Child {
                steps: (0..k)
                    .map(|_| if r.chance(3, 5) { Step::Yield } else { Step::Sleep(*r.pick(&[1_000u64, 300_000, 1_000_000, 2_000_000])) })
                    .collect(),
                panics: allow_panic && r.chance(1, 8),
            }
        })
        .collect()
}

// ------------------------------------------------------------------------------------------------
// V1: coroutine::scope / join!
// ------------------------------------------------------------------------------------------------

#[derive(Debug)]
struct ParamsS {
    rt: RtCfg,
    owner: Ctx,
    children: Vec<Child>,
    /// owner joins the first `explicit` children through their handles inside the scope
    explicit: usize,
    owner_panics: bool,
    cancel_after: Option<u32>,
    nested: bool,
    /// the owner is cancelled a second time, this many controller steps after the first cancel:
    /// with the cancel disabled (that is how a scope waits) every further cancel is a spurious
    /// wake-up of the waiting owner
    second_cancel: Option<u32>,
}

fn gen_s(seed: u64) -> ParamsS {
    let mut r = gen_rng(seed);
    let rt = RtCfg::gen(&mut r, 3);
    let owner = Ctx::gen(&mut r);
    let n = r.range(1, 4) as usize;
    let children = gen_children(&mut r, n, true);
    let owner_panics = r.chance(1, 6);
    let cancel_after = if owner == Ctx::Co && !owner_panics && r.chance(1, 2) { Some(r.below(80) as u32) } else { None };
    let mut p = ParamsS { rt, owner, explicit: r.below(n as u64 + 1) as usize, children, owner_panics, cancel_after, nested: r.chance(1, 4), second_cancel: None };
    // drawn last: everything above is the same as before this field existed
    if p.cancel_after.is_some() && r.chance(1, 2) {
        p.second_cancel = Some(r.below(60) as u32);
    }
    p
}

pub fn run_scope(seed: u64, mut ov: impl FnMut(&mut engine::Cfg)) -> ! {
    let p = gen_s(seed);
    let mut cfg = swarm_cfg(seed, &swarm());
    ov(&mut cfg);
    engine::init(cfg);
    engine::set_extra("params", engine::json_str(&format!("{:?}", p)));
    rt::boot(&p.rt);
    engine::set_diag(|| format!("in flight: {}", OPS.pending()));

    let children = Arc::new(p.children.clone());
    let (explicit, owner_panics, nested) = (p.explicit, p.owner_panics, p.nested);
    let child_panics = p.children.iter().any(|c| c.panics);
    let owner_outcome: Arc<std::sync::Mutex<Option<Result<(), String>>>> = Arc::new(std::sync::Mutex::new(None));
    let oo = owner_outcome.clone();
    let ch = children.clone();
    let owner_fn = move || {
        let r = std::panic::catch_unwind(std::panic::AssertUnwindSafe(|| {
            let frame = Frame::new();
            let dead = frame.dead.clone();
            let o = OPS.begin("owner inside coroutine::scope".to_string());
            let mut results: Vec<u32> = Vec::new();
            coroutine::scope(|s| {
                let mut hs = Vec::new();
                for (i, c) in ch.iter().enumerate() {
                    let dead = dead.clone();
                    let c = c.clone();
                    let h = unsafe {
                        s.spawn(move || {
                            if nested && i == 0 {
                                // a nested scope inside a scoped child
                                let inner = Frame::new();
                                let d2 = inner.dead.clone();
                                let cc = c.clone();
                                coroutine::scope(|s2| {
                                    unsafe {
                                        s2.spawn(move || child_body(100 + i as u32, &Child { steps: cc.steps.clone(), panics: false }, &d2, "nested scope"));
                                    }
                                });
                                drop(inner);
                            }
                            child_body(i as u32, &c, &dead, "coroutine::scope")
                        })
                    };
                    hs.push(h);
                }
                if owner_panics {
                    rt::relax();
                    std::panic::panic_any(Scripted(999));
                }
                for (i, h) in hs.into_iter().enumerate() {
                    if i < explicit {
                        let v = h.join();
                        if v != i as u32 {
                            violation(&format!("scoped join of child {} returned {}", i, v));
                        }
                        results.push(v);
                    }
                }
            });
            o.done();
            // the scope has returned: every child must be over
            let st = CHILD_STARTED.load(Ordering::Relaxed);
            let en = CHILD_ENDED.load(Ordering::Relaxed);
            if st != en {
                violation(&format!("coroutine::scope returned while {} of its coroutines are still running", st - en));
            }
            drop(frame);
        }));
        let res = match r {
            Ok(()) => Ok(()),
            Err(e) => {
                // a cancellation must keep unwinding the coroutine
                if matches!(e.downcast_ref::<generator::Error>(), Some(generator::Error::Cancel)) {
                    *oo.lock().unwrap() = Some(Err("cancel".into()));
                    std::panic::resume_unwind(e);
                }
                Err(crate::panic_msg(&e))
            }
        };
        *oo.lock().unwrap() = Some(res);
    };
    let mut actors: Vec<Actor> = vec![rt::spawn_actor(p.owner, "owner", owner_fn)];
    let cancel_flag = Arc::new(AtomicBool::new(false));
    if let Some(k) = p.cancel_after {
        let co = actors[0].co.as_ref().unwrap().coroutine().clone();
        let mut list = vec![(k, co.clone(), cancel_flag.clone())];
        if let Some(gap) = p.second_cancel {
            list.push((k + 1 + gap, co, Arc::new(AtomicBool::new(false))));
        }
        actors.push(rt::spawn_canceller(list));
    }
    let deadline = engine::now() + 100_000_000;
    engine::set_vt_limit(deadline + 1_000_000);
    rt::await_actors(&actors, deadline);
    // children may still be running if the scope was left early: let them finish so that
    // they can observe the dead frame
    let st = CHILD_STARTED.load(Ordering::Relaxed);
    rt::await_count(&CHILD_ENDED, st, deadline, "scoped children");
    rt::expect_end(&mut actors[0], p.cancel_after.is_some());
    let out = owner_outcome.lock().unwrap().clone();
    match out {
        Some(Ok(())) => {
            if owner_panics {
                violation("the owner's own panic inside the scope was swallowed");
            }
            if child_panics && p.cancel_after.is_none() {
                violation("a scoped child panicked but the panic was not propagated to the owner");
            }
        }
        Some(Err(m)) => {
            let cancelled = m == "cancel" && p.cancel_after.is_some();
            if !(owner_panics || child_panics || cancelled) {
                violation(&format!("owner of the scope ended with an unexpected panic: {}", m));
            }
        }
        None => {
            if p.cancel_after.is_none() {
                violation("owner never recorded its outcome");
            }
        }
    }
    engine::finish_ok()
}

// ------------------------------------------------------------------------------------------------
// V2: select! with an arm that itself waits in join! (safe code only)
// ------------------------------------------------------------------------------------------------

#[derive(Debug)]
struct ParamsSel {
    rt: RtCfg,
    owner: Ctx,
    children: Vec<Child>,
    other_arm_sleep: u64,
    third_arm: bool,
}

fn gen_sel(seed: u64) -> ParamsSel {
    let mut r = gen_rng(seed);
    let rt = RtCfg::gen(&mut r, 3);
    let n = r.range(1, 3) as usize;
    ParamsSel {
        rt,
        owner: Ctx::gen(&mut r),
        children: gen_children(&mut r, n, false),
        other_arm_sleep: *r.pick(&[0u64, 1_000, 500_000, 1_000_000, 3_000_000]),
        third_arm: r.chance(1, 3),
    }
}

static ARM_RUNNING: AtomicU32 = AtomicU32::new(0);
struct ArmGuard;
impl ArmGuard {
    fn new() -> ArmGuard {
        ARM_RUNNING.fetch_add(1, Ordering::Relaxed);
        ArmGuard
    }
}
impl Drop for ArmGuard {
    fn drop(&mut self) {
        ARM_RUNNING.fetch_sub(1, Ordering::Relaxed);
    }
}

pub fn run_select(seed: u64, mut ov: impl FnMut(&mut engine::Cfg)) -> ! {
    let p = gen_sel(seed);
    let mut cfg = swarm_cfg(seed, &swarm());
    ov(&mut cfg);
    engine::init(cfg);
    engine::set_extra("params", engine::json_str(&format!("{:?}", p)));
    rt::boot(&p.rt);
    engine::set_diag(|| format!("in flight: {}", OPS.pending()));

    let children = Arc::new(p.children.clone());
    let (nap, third) = (p.other_arm_sleep, p.third_arm);
    let ch = children.clone();
    let owner_fn = move || {
        let frame = Frame::new();
        let dead = &frame.dead;
        let c0 = ch[0].clone();
        let c1 = ch.get(1).cloned().unwrap_or(Child { steps: vec![], panics: false });
        let c2 = ch.get(2).cloned().unwrap_or(Child { steps: vec![], panics: false });
        let o = OPS.begin("owner inside select!".to_string());
        let arm_dead = frame.dead.clone();
        let token = if third {
            may::select!(
                _g = {
                    let g = ArmGuard::new();
                    // the join! borrows `dead` from the owner's frame
                    may::join!(child_body(0, &c0, dead, "join! in select arm"), child_body(1, &c1, dead, "join! in select arm"), child_body(2, &c2, dead, "join! in select arm"));
                    g
                } => {},
                _g = {
                    let g = ArmGuard::new();
                    coroutine::sleep(Duration::from_nanos(nap));
                    g
                } => {},
                _g = {
                    let g = ArmGuard::new();
                    coroutine::yield_now();
                    if arm_dead.load(Ordering::Relaxed) {
                        violation("select arm still running after select! returned");
                    }
                    g
                } => {}
            )
        } else {
            may::select!(
                _g = {
                    let g = ArmGuard::new();
                    may::join!(child_body(0, &c0, dead, "join! in select arm"), child_body(1, &c1, dead, "join! in select arm"), child_body(2, &c2, dead, "join! in select arm"));
                    g
                } => {},
                _g = {
                    let g = ArmGuard::new();
                    coroutine::sleep(Duration::from_nanos(nap));
                    g
                } => {}
            )
        };
        o.done();
        if token > 2 {
            violation(&format!("select! returned the token {}", token));
        }
        let running = ARM_RUNNING.load(Ordering::Relaxed);
        if running != 0 {
            violation(&format!("select! returned while {} of its arms are still executing", running));
        }
        let st = CHILD_STARTED.load(Ordering::Relaxed);
        let en = CHILD_ENDED.load(Ordering::Relaxed);
        if st != en {
            violation(&format!(
                "select! returned while {} coroutine(s) of the join! inside one of its arms are still running",
                st - en
            ));
        }
        drop(frame);
    };
    let mut actors: Vec<Actor> = vec![rt::spawn_actor(p.owner, "owner", owner_fn)];
    let deadline = engine::now() + 100_000_000;
    engine::set_vt_limit(deadline + 1_000_000);
    rt::await_actors(&actors, deadline);
    let st = CHILD_STARTED.load(Ordering::Relaxed);
    rt::await_count(&CHILD_ENDED, st, deadline, "children of the join! inside the select arm");
    rt::expect_end(&mut actors[0], false);
    engine::finish_ok()
}
