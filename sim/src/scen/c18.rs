//! C18 — I/O timeouts and cancel of blocked I/O are exact; the socket stays usable

use crate::engine::{self, violation};
use crate::rt::{self, Actor, Ctx, RtCfg, OPS};
use crate::scen::c17::{pat, set_bufs};
use crate::{gen_rng, swarm_cfg, Swarm};
use may::os::unix::net::{UnixDatagram, UnixStream};
use std::io::{Read, Write};
use std::os::unix::io::{AsRawFd, FromRawFd, IntoRawFd};
use std::sync::atomic::{AtomicBool, AtomicU64, Ordering};
use std::sync::Arc;
use std::time::Duration;

pub fn swarm() -> Swarm {
    Swarm {
        alloc_modes: true,
        io: true,
        stalls: true,
        stall_max_ns: 3_000_000,
        stall_focus: &["io/sys/unix/net/", "io/sys/unix/epoll.rs", "io/sys/unix/mod.rs", "io/sys/unix/cancel.rs"],
        est_len: 6000,
        max_steps: 1_200_000,
        ..Default::default()
    }
}

/// timeout (ns, 0 = none) and start time of the timed operation currently in flight
static CUR_TIMEOUT: AtomicU64 = AtomicU64::new(0);
static CUR_T0: AtomicU64 = AtomicU64::new(0);

fn timed_op_begins(timeout: Option<u64>) {
    CUR_T0.store(engine::now(), Ordering::Relaxed);
    CUR_TIMEOUT.store(timeout.unwrap_or(0), Ordering::Relaxed);
}

fn timed_op_ends() {
    CUR_TIMEOUT.store(0, Ordering::Relaxed);
}

/// Known finding F21 (see known_findings.json): an io operation arms its timer before it
/// publishes the coroutine; if the arming thread is held up for the whole timeout in between,
/// the timer fires, finds no coroutine and the time-out is lost. Recognised exactly: the run
/// hangs in a timed operation AND a stall at least as long as its (ms-rounded) timeout was
/// injected, after the operation began, at a schedule point between the computation of the
/// expiry time in add_timer and the store of the coroutine in `subscribe`.
fn hung_note() -> String {
    let d = CUR_TIMEOUT.load(Ordering::Relaxed);
    if d == 0 {
        return String::new();
    }
    let t0 = CUR_T0.load(Ordering::Relaxed);
    for st in engine::stall_log() {
        let in_window = st.file.ends_with("may_queue/src/mpsc_list_v1.rs")
            || st.file.ends_with("src/timeout_list.rs")
            || st.file.ends_with("src/verif.rs")
            || st.file.ends_with("io/sys/unix/epoll.rs")
            || (st.file.contains("io/sys/unix/net/") && st.op == "opt.store");
        if in_window && st.vt >= t0 && st.dur + 100_000 >= ceil_ms(d) {
            return format!(
                "lost io timeout: the thread arming the io timer was stalled {} ns (timeout {} ns) at {}:{} before the coroutine was published",
                st.dur, d, st.file, st.line
            );
        }
    }
    String::new()
}

const DURS: [u64; 7] = [100_000, 1_000_000, 1_500_000, 2_000_001, 10_000_000, 50_000_000, 1_000_000_000];

#[derive(Debug, Clone)]
struct Op {
    timeout: Option<u64>,
    /// the peer writes `len` bytes this long after the operation started (None = never)
    deliver_after: Option<u64>,
    len: usize,
    buf: usize,
    peek: bool,
}

#[derive(Debug)]
struct ParamsT {
    rt: RtCfg,
    reader: Ctx,
    ops: Vec<Op>,
    dgram: bool,
    /// loopback TCP: the stream is made by TcpStream::connect_timeout
    tcp: bool,
    connect_timeout: u64,
    /// before that, a connect_timeout to a listener with a full accept queue
    blocked_connect: Option<u64>,
}

trait TStream: Send {
    fn set_rt(&self, d: Option<Duration>);
    fn rd(&mut self, buf: &mut [u8]) -> std::io::Result<usize>;
    fn pk(&mut self, buf: &mut [u8]) -> std::io::Result<usize>;
}
impl TStream for UnixStream {
    fn set_rt(&self, d: Option<Duration>) {
        self.set_read_timeout(d).unwrap()
    }
    fn rd(&mut self, buf: &mut [u8]) -> std::io::Result<usize> {
        self.read(buf)
    }
    fn pk(&mut self, buf: &mut [u8]) -> std::io::Result<usize> {
        self.peek(buf)
    }
}
impl TStream for may::net::TcpStream {
    fn set_rt(&self, d: Option<Duration>) {
        self.set_read_timeout(d).unwrap()
    }
    fn rd(&mut self, buf: &mut [u8]) -> std::io::Result<usize> {
        self.read(buf)
    }
    fn pk(&mut self, buf: &mut [u8]) -> std::io::Result<usize> {
        self.peek(buf)
    }
}

static CONNECTED: AtomicBool = AtomicBool::new(false);
static KEEP: std::sync::Mutex<Vec<Box<dyn std::any::Any + Send>>> = std::sync::Mutex::new(Vec::new());

/// a loopback listener with backlog 0 and enough pending connections that the kernel drops
/// further SYNs: a connect to it stays in progress (retransmission only after 1 s of real time)
fn full_listener() -> (std::net::SocketAddr, Vec<Box<dyn std::any::Any + Send>>) {
    use socket2::{Domain, Socket, Type};
    let l = Socket::new(Domain::IPV4, Type::STREAM, None).expect("socket");
    let any: std::net::SocketAddr = "127.0.0.1:0".parse().unwrap();
    l.bind(&any.into()).expect("bind");
    l.listen(0).expect("listen");
    let addr = l.local_addr().unwrap().as_socket().unwrap();
    let mut keep: Vec<Box<dyn std::any::Any + Send>> = Vec::new();
    for _ in 0..3 {
        let c = Socket::new(Domain::IPV4, Type::STREAM, None).expect("socket");
        c.set_nonblocking(true).unwrap();
        let _ = c.connect(&addr.into());
        keep.push(Box::new(c));
    }
    keep.push(Box::new(l));
    (addr, keep)
}

fn ceil_ms(d: u64) -> u64 {
    d.div_ceil(1_000_000).max(1) * 1_000_000
}

fn gen_t(seed: u64) -> ParamsT {
    let mut r = gen_rng(seed);
    let rt = RtCfg::gen(&mut r, 3);
    let n = r.range(2, 4) as usize;
    let dgram = r.chance(1, 4);
    let ops = (0..n)
        .map(|_| {
            let timeout = if r.chance(4, 5) { Some(*r.pick(&DURS)) } else { None };
            let deliver_after = match (timeout, r.below(6)) {
                (None, _) => Some(*r.pick(&[0u64, 300_000, 2_000_000])),
                (Some(_), 0) => None,
                (Some(d), 1) => Some(d / 4),
                (Some(d), 2) => Some(ceil_ms(d).saturating_sub(1_200_000)),
                (Some(d), 3) => Some(ceil_ms(d)),
                (Some(d), 4) => Some(ceil_ms(d) + 400_000),
                (Some(_), _) => Some(0),
            };
            Op { timeout, deliver_after, len: r.range(1, 60) as usize, buf: *r.pick(&[8usize, 64, 256]), peek: !dgram && r.chance(1, 6) }
        })
        .collect();
    let tcp = !dgram && r.chance(1, 3);
    let connect_timeout = *r.pick(&[1_000_000u64, 50_000_000, 1_000_000_000]);
    let blocked_connect = if tcp && r.chance(1, 2) { Some(*r.pick(&[100_000u64, 1_000_000, 1_500_000, 10_000_000, 50_000_000])) } else { None };
    ParamsT { rt, reader: Ctx::gen(&mut r), ops, dgram, tcp, connect_timeout, blocked_connect }
}

/// virtual time at which operation k started (0 = not yet); written by the reader
#[allow(clippy::declare_interior_mutable_const)]
const ZT: AtomicU64 = AtomicU64::new(0);
static OP_START: [AtomicU64; 8] = [ZT; 8];
/// virtual time at which the peer's write for operation k returned (0 = not delivered)
static DELIVERED: [AtomicU64; 8] = [ZT; 8];
static READER_OPS_DONE: AtomicBool = AtomicBool::new(false);

pub fn run_timeout(seed: u64, mut ov: impl FnMut(&mut engine::Cfg)) -> ! {
    let p = gen_t(seed);
    let mut cfg = swarm_cfg(seed, &swarm());
    ov(&mut cfg);
    engine::init(cfg);
    engine::set_extra("params", engine::json_str(&format!("{:?}", p)));
    if p.tcp {
        engine::set_extra("kernel_nondet", "true".to_string());
    }
    rt::boot(&p.rt);
    *rt::HUNG_NOTE.lock().unwrap() = Some(hung_note);
    engine::set_diag(|| format!("in flight: {}", OPS.pending()));
    engine::set_vt_limit(engine::now() + 20_000_000_000);
    let quiet = engine::quiet();

    let ops = Arc::new(p.ops.clone());
    let mut actors: Vec<Actor> = Vec::new();
    let peer_done = Arc::new(AtomicBool::new(false));
    if p.dgram {
        let (x, y) = std::os::unix::net::UnixDatagram::pair().expect("pair");
        x.set_nonblocking(true).unwrap();
        let may_end = unsafe { UnixDatagram::from_raw_fd(y.into_raw_fd()) };
        // the peer: one datagram per operation that has a delivery
        {
            let ops = ops.clone();
            let pd = peer_done.clone();
            actors.push(rt::spawn_actor(Ctx::Thread, "peer", move || {
                for (k, op) in ops.iter().enumerate() {
                    loop {
                        if OP_START[k].load(Ordering::Relaxed) != 0 {
                            break;
                        }
                        engine::wait_key(&OP_START[k] as *const _ as usize, None);
                    }
                    if let Some(a) = op.deliver_after {
                        let t0 = OP_START[k].load(Ordering::Relaxed) - 1;
                        let now = engine::now();
                        if t0 + a > now {
                            engine::sleep(t0 + a - now);
                        }
                        let d: Vec<u8> = (0..op.len).map(|i| pat(seed, k, 5, i)).collect();
                        engine::point();
                        x.send(&d).expect("peer send");
                        DELIVERED[k].store(engine::now().max(1), Ordering::Relaxed);
                    }
                }
                rt::set_flag(&pd);
            }));
        }
        let ops2 = ops.clone();
        let pd = peer_done.clone();
        actors.push(rt::spawn_actor(p.reader, "reader", move || {
            // datagrams that arrive after their operation timed out are received by a later one
            let mut next_expected = 0usize;
            for (k, op) in ops2.iter().enumerate() {
                may_end.set_read_timeout(op.timeout.map(Duration::from_nanos)).unwrap();
                let mut buf = vec![0u8; 256];
                let o = OPS.begin(format!("reader op{} recv timeout {:?}", k, op.timeout));
                let t0 = engine::now();
                OP_START[k].store(t0 + 1, Ordering::Relaxed);
                engine::notify(&OP_START[k] as *const _ as usize);
                timed_op_begins(op.timeout);
                let r = may_end.recv(&mut buf);
                timed_op_ends();
                let t1 = engine::now();
                o.done();
                check_result(k, op, t0, t1, r.as_ref().map(|n| *n).map_err(|e| e.kind()), quiet, "recv");
                if let Ok(n) = r {
                    // which datagram is it: the oldest delivered one not yet received
                    while next_expected < ops2.len() && ops2[next_expected].deliver_after.is_none() {
                        next_expected += 1;
                    }
                    if next_expected >= ops2.len() {
                        violation(&format!("op{}: received a datagram nobody sent", k));
                    }
                    let want: Vec<u8> = (0..ops2[next_expected].len).map(|i| pat(seed, next_expected, 5, i)).collect();
                    if buf[..n] != want[..] {
                        violation(&format!("op{}: datagram content / boundary wrong ({} bytes, expected datagram {} of {} bytes)", k, n, next_expected, want.len()));
                    }
                    next_expected += 1;
                }
            }
            // keep the socket until the peer has sent everything (late datagrams are simply dropped)
            rt::wait_flag(&pd, usize::MAX);
        }));
    } else {
        // how each side gets its end of the stream
        type MkPeer = Box<dyn FnOnce() -> Box<dyn Write + Send> + Send>;
        let mk_peer: MkPeer;
        let mk_may: Box<dyn FnOnce() -> Box<dyn TStream> + Send>;
        if p.tcp {
            let l = std::net::TcpListener::bind("127.0.0.1:0").expect("bind");
            l.set_nonblocking(true).unwrap();
            let addr = l.local_addr().unwrap();
            // a listener whose accept queue is full: a connect to it stays in progress
            let full = if p.blocked_connect.is_some() { Some(full_listener()) } else { None };
            let full_addr = full.as_ref().map(|f| f.0);
            KEEP.lock().unwrap().push(Box::new(full));
            let (bc, ct) = (p.blocked_connect, p.connect_timeout);
            mk_may = Box::new(move || {
                if let (Some(d), Some(fa)) = (bc, full_addr) {
                    let o = OPS.begin(format!("reader connect_timeout {} ns to a listener with a full queue", d));
                    let t0 = engine::now();
                    timed_op_begins(Some(d));
                    let r = may::net::TcpStream::connect_timeout(&fa, Duration::from_nanos(d));
                    timed_op_ends();
                    let t1 = engine::now();
                    o.done();
                    match r {
                        Err(e) if e.kind() == std::io::ErrorKind::TimedOut => {
                            if t1 < t0 + d {
                                violation(&format!("connect_timeout({} ns) failed with TimedOut after only {} ns", d, t1 - t0));
                            }
                            if quiet && t1 > t0 + ceil_ms(d) + 3_000_000 {
                                violation(&format!("connect_timeout({} ns) timed out {} ns late although nothing delayed it", d, t1 - t0 - ceil_ms(d)));
                            }
                            engine::probe("connect_timed_out");
                        }
                        // the kernel let it through (queue not full after all): not our business
                        _ => engine::probe("connect_not_blocked"),
                    }
                }
                // a stalled thread may overrun a short timeout of its own (the runtime looks at its
                // timers before it polls again): short ones only in undisturbed runs
                // and never short in virtual time at all: the handshake completes in softirq context
                // and the virtual clock must not run ahead of it (a jump of > 50 ms makes the engine
                // give the kernel real time first)
                let ct = if quiet { ct.max(1_000_000_000) } else { ct.max(1_000_000_000) };
                let o = OPS.begin("reader connect_timeout to a listening socket".to_string());
                let t0 = engine::now();
                timed_op_begins(Some(ct));
                let r = may::net::TcpStream::connect_timeout(&addr, Duration::from_nanos(ct));
                timed_op_ends();
                let t1 = engine::now();
                o.done();
                let s = r.unwrap_or_else(|e| violation(&format!("connect_timeout({} ns) to a listening loopback socket failed after {} ns: {}", ct, t1 - t0, e)));
                rt::set_flag(&CONNECTED);
                Box::new(s)
            });
            mk_peer = Box::new(move || {
                rt::wait_flag(&CONNECTED, usize::MAX);
                let mut tries = 0;
                loop {
                    engine::point();
                    match l.accept() {
                        Ok((s, _)) => {
                            s.set_nonblocking(true).unwrap();
                            s.set_nodelay(true).unwrap();
                            return Box::new(s);
                        }
                        Err(e) if e.kind() == std::io::ErrorKind::WouldBlock => {
                            tries += 1;
                            if tries > 200 {
                                violation("connect_timeout returned Ok but the listener has no connection to accept");
                            }
                            engine::sleep(100_000);
                        }
                        Err(e) => violation(&format!("std accept failed: {}", e)),
                    }
                }
            });
        } else {
            let (x, y) = std::os::unix::net::UnixStream::pair().expect("pair");
            x.set_nonblocking(true).unwrap();
            let may_end = unsafe { UnixStream::from_raw_fd(y.into_raw_fd()) };
            mk_peer = Box::new(move || Box::new(x));
            mk_may = Box::new(move || Box::new(may_end));
        }
        let tcp = p.tcp;
        {
            let ops = ops.clone();
            let pd = peer_done.clone();
            actors.push(rt::spawn_actor(Ctx::Thread, "peer", move || {
                let mut x = mk_peer();
                let mut off = 0usize;
                for (k, op) in ops.iter().enumerate() {
                    loop {
                        if OP_START[k].load(Ordering::Relaxed) != 0 {
                            break;
                        }
                        engine::wait_key(&OP_START[k] as *const _ as usize, None);
                    }
                    if let Some(a) = op.deliver_after {
                        let t0 = OP_START[k].load(Ordering::Relaxed) - 1;
                        let now = engine::now();
                        if t0 + a > now {
                            engine::sleep(t0 + a - now);
                        }
                        let d: Vec<u8> = (off..off + op.len).map(|i| pat(seed, 0, 5, i)).collect();
                        engine::point();
                        x.write_all(&d).expect("peer write");
                        off += op.len;
                        // loopback TCP may hand the bytes over a little later (softirq): no claim then
                        if !tcp {
                            DELIVERED[k].store(engine::now().max(1), Ordering::Relaxed);
                        }
                    }
                }
                loop {
                    if READER_OPS_DONE.load(Ordering::Relaxed) {
                        break;
                    }
                    engine::wait_key(&READER_OPS_DONE as *const _ as usize, None);
                }
                pd.store(true, Ordering::Relaxed);
                drop(x);
            }));
        }
        let ops2 = ops.clone();
        let pd = peer_done.clone();
        actors.push(rt::spawn_actor(p.reader, "reader", move || {
            let mut may_end = mk_may();
            let mut off = 0usize;
            for (k, op) in ops2.iter().enumerate() {
                may_end.set_rt(op.timeout.map(Duration::from_nanos));
                let mut buf = vec![0u8; op.buf];
                let what = if op.peek { "peek" } else { "read" };
                let o = OPS.begin(format!("reader op{} {} timeout {:?}", k, what, op.timeout));
                let t0 = engine::now();
                OP_START[k].store(t0 + 1, Ordering::Relaxed);
                engine::notify(&OP_START[k] as *const _ as usize);
                timed_op_begins(op.timeout);
                let r = if op.peek { may_end.pk(&mut buf) } else { may_end.rd(&mut buf) };
                timed_op_ends();
                let t1 = engine::now();
                o.done();
                check_result(k, op, t0, t1, r.as_ref().map(|n| *n).map_err(|e| e.kind()), quiet, what);
                if let Ok(n) = r {
                    if n == 0 {
                        violation(&format!("op{}: {} returned 0 although the peer has not closed", k, what));
                    }
                    for (j, b) in buf[..n].iter().enumerate() {
                        if *b != pat(seed, 0, 5, off + j) {
                            violation(&format!("op{}: byte {} of the stream is wrong after earlier timeouts (stream disturbed)", k, off + j));
                        }
                    }
                    if !op.peek {
                        off += n;
                    }
                }
            }
            // the socket is still usable: drain the rest until the peer's close
            READER_OPS_DONE.store(true, Ordering::Relaxed);
            engine::notify(&READER_OPS_DONE as *const _ as usize);
            may_end.set_rt(None);
            loop {
                let mut buf = [0u8; 128];
                match may_end.rd(&mut buf) {
                    Ok(0) => {
                        if !pd.load(Ordering::Relaxed) {
                            violation("read returned 0 before the peer closed");
                        }
                        break;
                    }
                    Ok(n) => {
                        for (j, b) in buf[..n].iter().enumerate() {
                            if *b != pat(seed, 0, 5, off + j) {
                                violation(&format!("final drain: byte {} of the stream is wrong", off + j));
                            }
                        }
                        off += n;
                    }
                    Err(e) => violation(&format!("final drain with no timeout failed: {}", e)),
                }
            }
            let total: usize = ops2.iter().filter(|o| o.deliver_after.is_some()).map(|o| o.len).sum();
            if off != total {
                violation(&format!("{} bytes received in total, {} were written by the peer", off, total));
            }
        }));
    }
    rt::await_actors(&actors, engine::now() + 15_000_000_000);
    for a in actors.iter_mut() {
        rt::expect_end(a, false);
    }
    engine::finish_ok()
}

/// Known finding F23 (see known_findings.json): `timeout_handler` drops the operation's timer
/// handle and then takes `EventData.co`. If the selector thread is held up between the two while
/// the operation ends otherwise and a later operation on the same socket is published, the stale
/// handler takes that later operation's coroutine and fails it with TimedOut. Recognised exactly:
/// an early TimedOut AND a stall was injected at a schedule point in front of an
/// `AtomicOption::take` in io/sys/unix/mod.rs (the handler's `co.take()`), it began before the
/// failed operation's end and lasted until after that operation had started.
fn stale_handler_note(t0: u64, t1: u64) -> String {
    for st in engine::stall_log() {
        if st.file.ends_with("io/sys/unix/mod.rs") && st.op == "opt.take" && st.vt <= t1 && st.vt + st.dur >= t0 {
            return format!(
                " [stale timeout handler: the selector was stalled {} ns at {}:{} between dropping an operation's timer handle and taking the coroutine; the operation ended otherwise and this later one was hit]",
                st.dur, st.file, st.line
            );
        }
    }
    String::new()
}

fn check_result(k: usize, op: &Op, t0: u64, t1: u64, r: Result<usize, std::io::ErrorKind>, quiet: bool, what: &str) {
    match r {
        Err(std::io::ErrorKind::TimedOut) => {
            let d = match op.timeout {
                Some(d) => d,
                None => violation(&format!("op{}: {} with no timeout failed with TimedOut (stale timer of an earlier operation){}", k, what, stale_handler_note(t0, t1))),
            };
            if t1 < t0 + d {
                violation(&format!(
                    "op{}: {} with timeout {} ns failed with TimedOut after only {} ns (early, or the stale timer of an earlier operation){}",
                    k,
                    what,
                    d,
                    t1 - t0,
                    stale_handler_note(t0, t1)
                ));
            }
            // data that was delivered well before the deadline must be returned, not a timeout
            let dl = DELIVERED[k].load(Ordering::Relaxed);
            if quiet && dl != 0 && dl + 1_000_000 < t0 + d {
                violation(&format!(
                    "op{}: {} timed out at {} although the data was delivered at {} (deadline {})",
                    k,
                    what,
                    t1,
                    dl,
                    t0 + d
                ));
            }
            if quiet && t1 > t0 + ceil_ms(d) + 3_000_000 {
                violation(&format!("op{}: {} with timeout {} ns timed out {} ns late although nothing delayed it", k, what, d, t1 - t0 - ceil_ms(d)));
            }
        }
        Err(e) => violation(&format!("op{}: {} failed with {:?}", k, what, e)),
        Ok(_) => {}
    }
}

// ------------------------------------------------------------------------------------------------
// cancel of a coroutine blocked in socket I/O, with a bystander connection
// ------------------------------------------------------------------------------------------------

#[derive(Debug)]
struct ParamsC {
    rt: RtCfg,
    cancel_after: u32,
    deliver: Option<u32>,
    with_timeout: Option<u64>,
    bystander_bytes: usize,
    accept: bool,
    /// the target is blocked in a TCP connect (to a listener with a full accept queue)
    connect: bool,
    /// the socket is only borrowed by the target; after the cancel another coroutine uses it
    inherit: Option<Option<u64>>,
}

fn gen_c(seed: u64) -> ParamsC {
    let mut r = gen_rng(seed);
    let rt = RtCfg::gen(&mut r, 3);
    ParamsC {
        rt,
        cancel_after: r.below(80) as u32,
        deliver: if r.chance(1, 2) { Some(r.below(80) as u32) } else { None },
        with_timeout: if r.chance(1, 3) { Some(*r.pick(&[1_000_000u64, 10_000_000, 1_000_000_000])) } else { None },
        bystander_bytes: r.range(0, 9000) as usize,
        accept: r.chance(1, 4),
        connect: r.chance(1, 5),
        inherit: if r.chance(1, 2) { Some(if r.chance(1, 2) { None } else { Some(3_000_000_000) }) } else { None },
    }
}

fn open_fds() -> Vec<i32> {
    (0..512).filter(|fd| unsafe { libc::fcntl(*fd, libc::F_GETFD) } != -1).collect()
}

struct Shared(std::cell::UnsafeCell<UnixStream>);
unsafe impl Send for Shared {}
unsafe impl Sync for Shared {}

/// virtual time + 1 at which the heir started its first read (0 = not yet)
static HEIR_START: AtomicU64 = AtomicU64::new(0);
static HEIR_DONE: AtomicBool = AtomicBool::new(false);

pub fn run_cancel(seed: u64, mut ov: impl FnMut(&mut engine::Cfg)) -> ! {
    let p = gen_c(seed);
    let mut cfg = swarm_cfg(seed, &swarm());
    ov(&mut cfg);
    engine::init(cfg);
    engine::set_extra("params", engine::json_str(&format!("{:?}", p)));
    if p.connect && !p.accept {
        engine::set_extra("kernel_nondet", "true".to_string());
    }
    rt::boot(&p.rt);
    *rt::HUNG_NOTE.lock().unwrap() = Some(hung_note);
    engine::set_diag(|| format!("in flight: {}", OPS.pending()));
    engine::set_vt_limit(engine::now() + 8_000_000_000);

    let mut actors: Vec<Actor> = Vec::new();
    // ---- bystander connection: must be undisturbed
    {
        let (mut a, mut b) = UnixStream::pair().expect("pair");
        set_bufs(a.as_raw_fd(), 2304, 2304);
        set_bufs(b.as_raw_fd(), 2304, 2304);
        let n = p.bystander_bytes;
        actors.push(rt::spawn_actor(Ctx::Co, "bystander-writer", move || {
            let data: Vec<u8> = (0..n).map(|i| pat(seed, 9, 0, i)).collect();
            for ch in data.chunks(700) {
                if let Err(e) = a.write_all(ch) {
                    violation(&format!("bystander write failed: {}", e));
                }
            }
            unsafe { libc::shutdown(a.as_raw_fd(), libc::SHUT_WR) };
            // keep the stream open until the reader is done
            rt::nap(20_000_000);
        }));
        actors.push(rt::spawn_actor(Ctx::Co, "bystander-reader", move || {
            let mut off = 0;
            let mut buf = [0u8; 333];
            loop {
                match b.read(&mut buf) {
                    Ok(0) => break,
                    Ok(m) => {
                        for (j, x) in buf[..m].iter().enumerate() {
                            if *x != pat(seed, 9, 0, off + j) {
                                violation(&format!("bystander stream disturbed at byte {}", off + j));
                            }
                        }
                        off += m;
                    }
                    Err(e) => violation(&format!("bystander read failed: {} (a cancel / timeout of another coroutine leaked)", e)),
                }
            }
            if off != n {
                violation(&format!("bystander received {} of {} bytes", off, n));
            }
        }));
    }
    // ---- the target blocked in read (or accept)
    let target_fd = Arc::new(AtomicU64::new(u64::MAX));
    let got = Arc::new(AtomicU64::new(0));
    let cancel_issued = Arc::new(AtomicBool::new(false));
    let (x, y) = std::os::unix::net::UnixStream::pair().expect("pair");
    x.set_nonblocking(true).unwrap();
    let listener_path = format!("/tmp/mayverif-{}-{}.sock", std::process::id(), seed);
    let connect = p.connect && !p.accept;
    let inherit = if p.accept || connect { None } else { p.inherit };
    let mut shared: Option<Arc<Shared>> = None;
    let mut fds_before: Option<Vec<i32>> = None;
    let target = if connect {
        let full = full_listener();
        let addr = full.0;
        KEEP.lock().unwrap().push(Box::new(full));
        drop(y);
        fds_before = Some(open_fds());
        let wt = p.with_timeout;
        rt::spawn_actor(Ctx::Co, "target", move || {
            let o = OPS.begin("target blocked in connect".to_string());
            let r = match wt {
                Some(d) => may::net::TcpStream::connect_timeout(&addr, Duration::from_nanos(d)),
                None => may::net::TcpStream::connect(addr),
            };
            o.done();
            match r {
                Err(e) if e.kind() == std::io::ErrorKind::TimedOut && wt.is_some() => {}
                Err(e) => violation(&format!("connect failed: {}", e)),
                Ok(_) => engine::probe("connect_not_blocked"),
            }
        })
    } else if p.accept {
        let _ = std::fs::remove_file(&listener_path);
        let l = may::os::unix::net::UnixListener::bind(&listener_path).expect("bind");
        let tf = target_fd.clone();
        drop(y);
        rt::spawn_actor(Ctx::Co, "target", move || {
            tf.store(l.as_raw_fd() as u64, Ordering::Relaxed);
            let o = OPS.begin("target blocked in accept".to_string());
            let r = l.accept();
            o.done();
            if let Err(e) = r {
                violation(&format!("accept failed: {}", e));
            }
        })
    } else {
        let sh = Arc::new(Shared(std::cell::UnsafeCell::new(unsafe { UnixStream::from_raw_fd(y.into_raw_fd()) })));
        if inherit.is_some() {
            shared = Some(sh.clone());
        }
        let (tf, g2, wt) = (target_fd.clone(), got.clone(), p.with_timeout);
        rt::spawn_actor(Ctx::Co, "target", move || {
            // sole user of the stream while it runs
            let may_end = unsafe { &mut *sh.0.get() };
            tf.store(may_end.as_raw_fd() as u64, Ordering::Relaxed);
            may_end.set_read_timeout(wt.map(Duration::from_nanos)).unwrap();
            let mut buf = [0u8; 64];
            loop {
                let o = OPS.begin("target blocked in read".to_string());
                let r = may_end.read(&mut buf);
                o.done();
                match r {
                    Ok(0) => break,
                    Ok(n) => {
                        for (j, b) in buf[..n].iter().enumerate() {
                            let i = g2.load(Ordering::Relaxed) as usize + j;
                            if *b != pat(seed, 7, 0, i) {
                                violation(&format!("target stream byte {} wrong", i));
                            }
                        }
                        g2.fetch_add(n as u64, Ordering::Relaxed);
                    }
                    Err(e) if e.kind() == std::io::ErrorKind::TimedOut => {}
                    Err(e) => violation(&format!("target read failed: {}", e)),
                }
            }
        })
    };
    // ---- the peer of the target: maybe delivers, then watches for the close (or feeds the heir)
    let heir_total = if p.deliver.is_some() { 50u64 } else { 10 };
    {
        let (deliver, ci, accept, path) = (p.deliver, cancel_issued.clone(), p.accept, listener_path.clone());
        let tco_done = target.done.clone();
        let stale = p.with_timeout.unwrap_or(1_000_000);
        let mut x = x;
        actors.push(rt::spawn_actor(Ctx::Thread, "peer", move || {
            if connect {
                return;
            }
            if accept {
                if let Some(k) = deliver {
                    for _ in 0..k {
                        engine::yield_point();
                    }
                    engine::point();
                    let _c = std::os::unix::net::UnixStream::connect(&path);
                    // a connection that arrives after the cancel stays in the backlog: fine
                }
                return;
            }
            let mut sent = 0usize;
            if let Some(k) = deliver {
                for _ in 0..k {
                    engine::yield_point();
                }
                let d: Vec<u8> = (0..40).map(|i| pat(seed, 7, 0, i)).collect();
                engine::point();
                // without an heir the target's socket may be closed by now
                match x.write_all(&d) {
                    Ok(()) => {}
                    Err(e) if inherit.is_none() && e.kind() == std::io::ErrorKind::BrokenPipe => {}
                    Err(e) => violation(&format!("peer write failed: {}", e)),
                }
                sent = 40;
            }
            if inherit.is_some() {
                // the second batch arrives after the moment the cancelled operation's timer would fire
                loop {
                    if HEIR_START.load(Ordering::Relaxed) != 0 {
                        break;
                    }
                    engine::wait_key(&HEIR_START as *const _ as usize, None);
                }
                engine::sleep(stale + 2_000_000);
                let d: Vec<u8> = (sent..sent + 10).map(|i| pat(seed, 7, 0, i)).collect();
                engine::point();
                x.write_all(&d).expect("peer write 2");
                // hold the socket until the heir is done
                loop {
                    if HEIR_DONE.load(Ordering::Relaxed) {
                        break;
                    }
                    engine::wait_key(&HEIR_DONE as *const _ as usize, None);
                }
                return;
            }
            // once the target is gone (cancelled), its socket is closed: we see end of stream
            loop {
                if tco_done.load(Ordering::Relaxed) {
                    break;
                }
                engine::sleep(200_000);
            }
            if ci.load(Ordering::Relaxed) {
                let mut buf = [0u8; 8];
                let mut tries = 0;
                loop {
                    engine::point();
                    match x.read(&mut buf) {
                        Ok(0) => break,
                        Ok(_) => {}
                        Err(e) if e.kind() == std::io::ErrorKind::WouldBlock => {
                            tries += 1;
                            if tries > 50 {
                                violation("the cancelled coroutine's socket was not closed: its peer sees no end of stream 10 ms after the coroutine ended");
                            }
                            engine::sleep(200_000);
                        }
                        Err(_) => break, // reset is a close as well
                    }
                }
            }
        }));
    }
    // ---- the cancel
    {
        let co = target.co.as_ref().unwrap().coroutine().clone();
        let (k, ci) = (p.cancel_after, cancel_issued.clone());
        actors.push(rt::spawn_actor(Ctx::Thread, "ctl", move || {
            for _ in 0..k {
                engine::yield_point();
            }
            ci.store(true, Ordering::Relaxed);
            unsafe { co.cancel() };
        }));
    }
    // ---- wait for the target; it ends with Cancel (or normally when accept got its connection)
    let mut target = target;
    rt::await_actors(std::slice::from_ref(&target), engine::now() + 3_000_000_000);
    if let Some(h) = target.co.take() {
        match h.join() {
            Ok(()) => {
                if !p.accept && !connect {
                    violation("the target ended normally although its peer never closed");
                }
            }
            Err(e) => {
                if !matches!(e.downcast_ref::<generator::Error>(), Some(generator::Error::Cancel)) {
                    violation(&format!("target ended with a foreign panic: {}", crate::panic_msg(&e)));
                }
            }
        }
    }
    // ---- the heir: later operations on the same socket are not failed by the cancelled one's timer
    if let (Some(sh), Some(heir_timeout)) = (shared.take(), inherit) {
        let g2 = got.clone();
        actors.push(rt::spawn_actor(Ctx::Co, "heir", move || {
            let s = unsafe { &mut *sh.0.get() };
            s.set_read_timeout(heir_timeout.map(Duration::from_nanos)).unwrap();
            let mut buf = [0u8; 64];
            let mut first = true;
            while g2.load(Ordering::Relaxed) < heir_total {
                let o = OPS.begin(format!("heir read timeout {:?}", heir_timeout));
                let t0 = engine::now();
                if first {
                    first = false;
                    HEIR_START.store(t0 + 1, Ordering::Relaxed);
                    engine::notify(&HEIR_START as *const _ as usize);
                }
                let r = s.read(&mut buf);
                let t1 = engine::now();
                o.done();
                match r {
                    Ok(0) => violation("heir: read returned 0 although the peer has not closed"),
                    Ok(n) => {
                        for (j, b) in buf[..n].iter().enumerate() {
                            let i = g2.load(Ordering::Relaxed) as usize + j;
                            if *b != pat(seed, 7, 0, i) {
                                violation(&format!("heir: stream byte {} wrong", i));
                            }
                        }
                        g2.fetch_add(n as u64, Ordering::Relaxed);
                    }
                    Err(e) if e.kind() == std::io::ErrorKind::TimedOut => match heir_timeout {
                        None => violation(&format!("heir: read with no timeout failed with TimedOut (timer of the cancelled operation still armed){}", stale_handler_note(t0, t1))),
                        Some(d) if t1 < t0 + d => violation(&format!(
                            "heir: read with timeout {} ns failed with TimedOut after only {} ns (timer of the cancelled operation still armed){}",
                            d,
                            t1 - t0,
                            stale_handler_note(t0, t1)
                        )),
                        Some(_) => violation("heir: read timed out although the peer sent the data 3 ms after it started"),
                    },
                    Err(e) => violation(&format!("heir: read failed: {}", e)),
                }
            }
            HEIR_DONE.store(true, Ordering::Relaxed);
            engine::notify(&HEIR_DONE as *const _ as usize);
            drop(sh);
        }));
    }
    rt::await_actors(&actors, engine::now() + 4_500_000_000);
    for a in actors.iter_mut() {
        rt::expect_end(a, false);
    }
    // what the coroutine owned is closed
    let fd = target_fd.load(Ordering::Relaxed);
    if fd != u64::MAX {
        let r = unsafe { libc::fcntl(fd as i32, libc::F_GETFD) };
        if r != -1 {
            violation(&format!("fd {} owned by the ended coroutine is still open", fd));
        }
    }
    if let Some(before) = fds_before {
        for fd in open_fds() {
            if !before.contains(&fd) {
                violation(&format!("fd {} opened by the cancelled connect is still open after the coroutine ended", fd));
            }
        }
    }
    let _ = std::fs::remove_file(&listener_path);
    engine::finish_ok()
}
