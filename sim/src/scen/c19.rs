//! C19 — timer entry list (mpsc_list_v1): each entry consumed once, popped in order or
//! removed through its handle; plain mpsc_list: FIFO. No runtime, plain sim threads.

use crate::engine::{self, violation};
use crate::oracle::{stamp, tok_state, QEv, QHistory, Tok};
use crate::{gen_rng, swarm_cfg, Swarm};
use may_queue::mpsc_list_v1::{Entry, Queue};
use std::sync::{Arc, Mutex};

pub fn swarm() -> Swarm {
    Swarm {
        alloc_modes: true,
        est_len: 500,
        max_steps: 200_000,
        ..Default::default()
    }
}

#[derive(Debug, Clone)]
enum COp {
    Pop,
    PopIfEven,
    PopIfAny,
    Peek,
    IsEmpty,
    /// remove the k-th handle currently held (modulo), oldest first
    RemoveOld(usize),
    /// remove the newest handle held
    RemoveNew,
    /// remove a handle whose entry was already consumed (if there is one)
    RemoveConsumed,
    DropHandle(usize),
    Relax,
}

#[derive(Debug)]
struct Params {
    producers: Vec<usize>,
    cons: Vec<COp>,
    presets: usize,
}

fn gen(seed: u64) -> Params {
    let mut r = gen_rng(seed);
    let np = r.range(1, 3) as usize;
    let producers: Vec<usize> = (0..np).map(|_| r.range(1, 5) as usize).collect();
    let total: usize = producers.iter().sum();
    let n = total * 2 + 6;
    let cons = (0..n)
        .map(|_| match r.below(100) {
            0..=19 => COp::Pop,
            20..=29 => COp::PopIfEven,
            30..=37 => COp::PopIfAny,
            38..=45 => COp::Peek,
            46..=51 => COp::IsEmpty,
            52..=66 => COp::RemoveOld(r.below(4) as usize),
            67..=76 => COp::RemoveNew,
            77..=82 => COp::RemoveConsumed,
            83..=88 => COp::DropHandle(r.below(3) as usize),
            _ => COp::Relax,
        })
        .collect();
    Params { producers, cons, presets: r.below(3) as usize }
}

#[derive(Clone, Debug)]
struct PushRec {
    id: u32,
    inv: u64,
    ret: u64,
    is_head: bool,
}

#[derive(Clone, Debug)]
struct ConsumeRec {
    id: u32,
    inv: u64,
    ret: u64,
    by_remove: bool,
}

#[derive(Default)]
struct Hist {
    pushes: Vec<PushRec>,
    consumed: Vec<ConsumeRec>,
    /// (inv, ret) of operations that reported "empty": pop / pop_if(any) / peek None, is_empty true
    empties: Vec<(u64, u64, &'static str)>,
    /// removes that returned None: (id, inv)
    remove_none: Vec<(u32, u64)>,
    /// order of pops
    pop_order: Vec<u32>,
}

pub fn run_v1(seed: u64, mut ov: impl FnMut(&mut engine::Cfg)) -> ! {
    let p = gen(seed);
    let mut cfg = swarm_cfg(seed, &swarm());
    ov(&mut cfg);
    engine::init(cfg);
    engine::set_extra("params", engine::json_str(&format!("{:?}", p)));

    let q: Arc<Queue<Tok>> = Arc::new(Queue::new());
    let hist = Arc::new(Mutex::new(Hist::default()));
    let mailbox: Arc<Mutex<Vec<(u32, Entry<Tok>)>>> = Arc::new(Mutex::new(Vec::new()));
    let mut all_ids = Vec::new();

    // entries already inside when the concurrent phase starts
    for k in 0..p.presets {
        let id = 900 + k as u32;
        let inv = stamp();
        let (e, is_head) = q.push(Tok::new(id));
        let ret = stamp();
        hist.lock().unwrap().pushes.push(PushRec { id, inv, ret, is_head });
        mailbox.lock().unwrap().push((id, e));
        all_ids.push(id);
    }
    let mut actors = Vec::new();
    for (pi, &n) in p.producers.iter().enumerate() {
        let q = q.clone();
        let hist = hist.clone();
        let mailbox = mailbox.clone();
        let ids: Vec<u32> = (0..n).map(|k| (pi * 100 + k) as u32).collect();
        all_ids.extend(ids.iter().copied());
        actors.push(engine::spawn(&format!("producer{}", pi), move || {
            for id in ids {
                let t = Tok::new(id);
                let inv = stamp();
                let (e, is_head) = q.push(t);
                let ret = stamp();
                hist.lock().unwrap().pushes.push(PushRec { id, inv, ret, is_head });
                mailbox.lock().unwrap().push((id, e));
            }
        }));
    }
    let consumer = {
        let q = q.clone();
        let hist = hist.clone();
        let mailbox = mailbox.clone();
        let ops = p.cons.clone();
        engine::spawn("consumer", move || {
            // handles the consumer holds, oldest first
            let mut held: Vec<(u32, Entry<Tok>)> = Vec::new();
            let consumed_ids = |h: &Hist| -> Vec<u32> { h.consumed.iter().map(|c| c.id).collect() };
            for op in ops.iter() {
                held.extend(mailbox.lock().unwrap().drain(..));
                match op {
                    COp::Relax => engine::yield_point(),
                    COp::Pop | COp::PopIfAny | COp::PopIfEven => {
                        let inv = stamp();
                        let r = match op {
                            COp::Pop => q.pop(),
                            COp::PopIfAny => q.pop_if(&|_t: &Tok| true),
                            _ => q.pop_if(&|t: &Tok| t.id() % 2 == 0),
                        };
                        let ret = stamp();
                        let mut h = hist.lock().unwrap();
                        match r {
                            Some(t) => {
                                let id = t.id();
                                if matches!(op, COp::PopIfEven) && id % 2 != 0 {
                                    violation(&format!("pop_if(even) returned the odd value {}", id));
                                }
                                h.consumed.push(ConsumeRec { id, inv, ret, by_remove: false });
                                h.pop_order.push(id);
                                drop(t);
                            }
                            None => {
                                if !matches!(op, COp::PopIfEven) {
                                    h.empties.push((inv, ret, "pop"));
                                }
                            }
                        }
                    }
                    COp::Peek => {
                        let inv = stamp();
                        let r = unsafe { q.peek().map(|t| t.id()) };
                        let ret = stamp();
                        let mut h = hist.lock().unwrap();
                        match r {
                            None => h.empties.push((inv, ret, "peek")),
                            Some(id) => {
                                if consumed_ids(&h).contains(&id) {
                                    violation(&format!("peek returned {} which was already consumed", id));
                                }
                            }
                        }
                    }
                    COp::IsEmpty => {
                        let inv = stamp();
                        let e = q.is_empty();
                        let ret = stamp();
                        if e {
                            hist.lock().unwrap().empties.push((inv, ret, "is_empty"));
                        }
                    }
                    COp::RemoveOld(_) | COp::RemoveNew | COp::RemoveConsumed => {
                        if held.is_empty() {
                            continue;
                        }
                        let idx = match op {
                            COp::RemoveOld(k) => k % held.len(),
                            COp::RemoveNew => held.len() - 1,
                            _ => {
                                let c = consumed_ids(&hist.lock().unwrap());
                                match held.iter().position(|h| c.contains(&h.0)) {
                                    Some(i) => i,
                                    None => continue,
                                }
                            }
                        };
                        let (id, e) = held.remove(idx);
                        let was_consumed = consumed_ids(&hist.lock().unwrap()).contains(&id);
                        let inv = stamp();
                        let r = e.remove();
                        let ret = stamp();
                        let mut h = hist.lock().unwrap();
                        match r {
                            Some(t) => {
                                if t.id() != id {
                                    violation(&format!("remove() on the handle of {} returned the value {}", id, t.id()));
                                }
                                if was_consumed {
                                    violation(&format!("remove() returned {} which had already been consumed", id));
                                }
                                h.consumed.push(ConsumeRec { id, inv, ret, by_remove: true });
                                drop(t);
                            }
                            None => {
                                if !was_consumed {
                                    h.remove_none.push((id, inv));
                                }
                            }
                        }
                    }
                    COp::DropHandle(k) => {
                        if !held.is_empty() {
                            let i = k % held.len();
                            drop(held.remove(i));
                        }
                    }
                }
            }
            // the remaining handles are dropped by the consumer side at the end
            mailbox.lock().unwrap().extend(held);
        })
    };
    for a in actors {
        engine::join(a);
    }
    engine::join(consumer);
    // drain on the main thread (it is the only consumer now)
    loop {
        let inv = stamp();
        let r = q.pop();
        let ret = stamp();
        let mut h = hist.lock().unwrap();
        match r {
            Some(t) => {
                let id = t.id();
                h.consumed.push(ConsumeRec { id, inv, ret, by_remove: false });
                h.pop_order.push(id);
            }
            None => {
                h.empties.push((inv, ret, "pop"));
                break;
            }
        }
    }
    drop(mailbox.lock().unwrap().drain(..).collect::<Vec<_>>());
    let h = hist.lock().unwrap();
    // exactly once
    for id in &all_ids {
        let n = h.consumed.iter().filter(|c| c.id == *id).count();
        if n != 1 {
            violation(&format!("entry {} consumed {} times (pop xor remove expected exactly once)", id, n));
        }
        if tok_state(*id) != 2 {
            violation(&format!("value {} not dropped exactly once (state {})", id, tok_state(*id)));
        }
    }
    let push_of = |id: u32| h.pushes.iter().find(|p| p.id == id).cloned().unwrap();
    let cons_of = |id: u32| h.consumed.iter().find(|c| c.id == id).cloned();
    // popped values are a subsequence of the push order
    for (i, a) in h.pop_order.iter().enumerate() {
        for b in h.pop_order[i + 1..].iter() {
            let (pa, pb) = (push_of(*a), push_of(*b));
            if pb.ret < pa.inv {
                violation(&format!(
                    "{} popped before {} although push({}) had returned before push({}) was invoked",
                    a, b, b, a
                ));
            }
        }
    }
    // a consumer operation saw "empty" only if the list could have been empty
    for (inv, ret, what) in h.empties.iter() {
        for p in h.pushes.iter() {
            if p.ret < *inv {
                let c = cons_of(p.id).unwrap();
                if c.inv > *ret {
                    violation(&format!(
                        "{} reported empty at [{},{}] although push({}) had returned at {} and the entry was consumed only at {}",
                        what, inv, ret, p.id, p.ret, c.inv
                    ));
                }
            }
        }
    }
    // the head report of push
    for b in h.pushes.iter() {
        if b.is_head {
            // the list was empty at some point of the push: everything pushed before must
            // be (being) consumed by the time the push returned
            for a in h.pushes.iter() {
                if a.ret < b.inv {
                    let c = cons_of(a.id).unwrap();
                    if c.inv > b.ret {
                        violation(&format!(
                            "push({}) reported head although {} (pushed before) was consumed only later",
                            b.id, a.id
                        ));
                    }
                }
            }
        } else {
            // somebody must have been inside: an entry whose push overlapped or preceded and
            // that was not yet fully consumed when this push started. If the pushed entry
            // itself was consumed before the push returned the report is moot (the consumer
            // moved the list's end while the push was computing it): not flagged
            let some_inside = h.pushes.iter().any(|a| {
                a.id != b.id && a.inv < b.ret && cons_of(a.id).map(|c| c.ret > b.inv).unwrap_or(true)
            });
            let self_consumed_early = cons_of(b.id).map(|c| c.inv < b.ret).unwrap_or(false);
            if !some_inside && !self_consumed_early {
                violation(&format!("push({}) did not report head although the list was empty during the whole call", b.id));
            }
        }
    }
    // remove() -> None on an unconsumed entry is allowed while its direct successor's push has
    // not completed (documented). The direct successor is not observable from outside, so this
    // is flagged only if a later push has completed AND no push that could be the direct
    // successor (overlapping or after the entry's own push) was still in flight
    for (id, inv) in h.remove_none.iter() {
        let ph = push_of(*id);
        let later_done = h.pushes.iter().any(|c| c.inv > ph.ret && c.ret < *inv);
        let maybe_successor_in_flight = h.pushes.iter().any(|c| c.id != *id && c.ret > ph.inv && c.ret > *inv);
        if later_done && !maybe_successor_in_flight {
            violation(&format!(
                "remove() of the unconsumed entry {} returned None although a later push had completed and no push was in flight (it is not the last node)",
                id
            ));
        }
    }
    drop(h);
    match Arc::try_unwrap(q) {
        Ok(q) => drop(q),
        Err(_) => violation("harness: queue still shared"),
    }
    // a list may go away while handles of consumed entries are still around (the timer thread
    // drops drained lists once more than 1024 durations exist; the handle of the timer that fired
    // last is removed a little later): the last consumed entry is the list's end marker, it must
    // stay valid until its handle is gone
    {
        let q2: Queue<Tok> = Queue::new();
        let (ha, _) = q2.push(Tok::new(1900));
        let (hb, _) = q2.push(Tok::new(1901));
        let a = q2.pop();
        let b = q2.pop();
        if a.map(|t| t.id()) != Some(1900) || b.map(|t| t.id()) != Some(1901) {
            violation("single-threaded push push pop pop did not return the two values in order");
        }
        drop(q2);
        if hb.remove().is_some() {
            violation("remove() of an entry consumed before its list was dropped returned a value");
        }
        if ha.remove().is_some() {
            violation("remove() of an entry consumed before its list was dropped returned a value");
        }
    }
    engine::finish_ok()
}

/// the plain list: push / pop / is_empty, FIFO linearizability with the shared oracle
pub fn run_plain(seed: u64, mut ov: impl FnMut(&mut engine::Cfg)) -> ! {
    let mut r = gen_rng(seed);
    let np = r.range(1, 3) as usize;
    let counts: Vec<usize> = (0..np).map(|_| r.range(1, 6) as usize).collect();
    let total: usize = counts.iter().sum();
    let ops: Vec<u8> = (0..total * 2 + 5).map(|_| if r.chance(4, 5) { 0 } else { 1 }).collect();
    let mut cfg = swarm_cfg(seed, &swarm());
    ov(&mut cfg);
    engine::init(cfg);
    engine::set_extra("params", engine::json_str(&format!("plain counts {:?}", counts)));
    let q: Arc<may_queue::mpsc_list::Queue<Tok>> = Arc::new(may_queue::mpsc_list::Queue::new());
    let hist = Arc::new(QHistory::new());
    let mut all_ids = Vec::new();
    let mut actors = Vec::new();
    for (pi, &n) in counts.iter().enumerate() {
        let q = q.clone();
        let hist = hist.clone();
        let ids: Vec<u32> = (0..n).map(|k| (pi * 100 + k) as u32).collect();
        all_ids.extend(ids.iter().copied());
        actors.push(engine::spawn(&format!("producer{}", pi), move || {
            for id in ids {
                let t = Tok::new(id);
                let inv = stamp();
                q.push(t);
                hist.add(QEv::Push { id, inv, ret: stamp() });
            }
        }));
    }
    let consumer = {
        let q = q.clone();
        let hist = hist.clone();
        engine::spawn("consumer", move || {
            let mut got = 0;
            for op in ops {
                if got == total {
                    break;
                }
                if op == 0 {
                    let inv = stamp();
                    let r = q.pop();
                    let ids: Vec<u32> = r.iter().map(|t| t.id()).collect();
                    got += ids.len();
                    hist.add(QEv::Pop { ids, inv, ret: stamp(), bulk: false });
                } else {
                    let inv = stamp();
                    let e = q.is_empty();
                    hist.add(QEv::Len { n: if e { 0 } else { 1 }, inv, ret: stamp(), consumer: true, is_empty_call: true });
                }
            }
        })
    };
    for a in actors {
        engine::join(a);
    }
    engine::join(consumer);
    loop {
        let inv = stamp();
        let r = q.pop();
        let ids: Vec<u32> = r.iter().map(|t| t.id()).collect();
        let e = ids.is_empty();
        hist.add(QEv::Pop { ids, inv, ret: stamp(), bulk: false });
        if e {
            break;
        }
    }
    let popped = hist.popped_ids();
    for id in &all_ids {
        if !popped.contains(id) {
            violation(&format!("value {} was pushed but never popped", id));
        }
    }
    if let Err(e) = hist.check() {
        violation(&format!("list history not linearizable to a FIFO queue: {}", e));
    }
    drop(q);
    for id in &all_ids {
        if tok_state(*id) != 2 {
            violation(&format!("value {} not dropped exactly once", id));
        }
    }
    engine::finish_ok()
}

// ------------------------------------------------------------------------------------------------
// the wake protocol the timer thread builds on the head report: a consumer that found the list
// empty goes idle and is woken by exactly the push that reports "head"; pushes that report "not
// head" wake nobody. A head report lost for a push that did find the list empty strands the
// entry (in may: that timeout and every later one of the same duration never fires)
// ------------------------------------------------------------------------------------------------

pub fn run_wake(seed: u64, mut ov: impl FnMut(&mut engine::Cfg)) -> ! {
    use std::sync::atomic::{AtomicBool, AtomicU32, Ordering};
    let mut r = gen_rng(seed);
    let np = r.range(1, 3) as usize;
    let counts: Vec<usize> = (0..np).map(|_| r.range(1, 5) as usize).collect();
    let gaps: Vec<u32> = (0..np).map(|_| r.below(12) as u32).collect();
    let total: usize = counts.iter().sum();
    let mut cfg = swarm_cfg(seed, &swarm());
    ov(&mut cfg);
    engine::init(cfg);
    engine::set_extra("params", engine::json_str(&format!("wake protocol: counts {:?} gaps {:?}", counts, gaps)));
    let q: Arc<Queue<Tok>> = Arc::new(Queue::new());
    let token = Arc::new(AtomicBool::new(false));
    let consumed = Arc::new(AtomicU32::new(0));
    let mut actors = Vec::new();
    for (pi, &n) in counts.iter().enumerate() {
        let (q, token, gap) = (q.clone(), token.clone(), gaps[pi]);
        actors.push(engine::spawn(&format!("producer{}", pi), move || {
            for k in 0..n {
                for _ in 0..gap {
                    engine::yield_point();
                }
                let (entry, is_head) = q.push(Tok::new((pi * 100 + k) as u32));
                drop(entry);
                if is_head {
                    token.store(true, Ordering::Relaxed);
                    engine::notify(&*token as *const _ as usize);
                }
            }
        }));
    }
    let consumer = {
        let (q, token, consumed) = (q.clone(), token.clone(), consumed.clone());
        engine::spawn("consumer", move || {
            let mut seen = std::collections::HashSet::new();
            while (consumed.load(Ordering::Relaxed) as usize) < total {
                // drain
                while let Some(t) = q.pop() {
                    if !seen.insert(t.id()) {
                        violation(&format!("entry {} popped twice", t.id()));
                    }
                    consumed.fetch_add(1, Ordering::Relaxed);
                }
                if consumed.load(Ordering::Relaxed) as usize >= total {
                    break;
                }
                // idle until a push reports that it found the list empty
                loop {
                    if token.swap(false, Ordering::Relaxed) {
                        break;
                    }
                    if !engine::wait_key(&*token as *const _ as usize, Some(50_000_000)) {
                        let left = total - consumed.load(Ordering::Relaxed) as usize;
                        violation(&format!(
                            "the consumer found the list empty and went idle; {} entr{} pushed afterwards but no push reported 'head', so nobody woke it (is_empty() now: {})",
                            left,
                            if left == 1 { "y was" } else { "ies were" },
                            q.is_empty()
                        ));
                    }
                }
            }
        })
    };
    engine::set_vt_limit(engine::now() + 1_000_000_000);
    for a in actors {
        engine::join(a);
    }
    engine::join(consumer);
    if q.pop().is_some() {
        violation("an entry is left in the list after all were consumed");
    }
    engine::finish_ok()
}
