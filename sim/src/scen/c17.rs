//! C17 — network I/O preserves the byte stream and never misses a readiness edge.
//! The kernel is real (AF_UNIX / loopback TCP / UDP sockets), the engine decides who issues
//! the next syscall; idle event loops are woken when their epoll fd is readable.

use crate::engine::{self, violation};
use crate::rt::{self, Actor, Ctx, RtCfg, OPS};
use crate::{gen_rng, swarm_cfg, Swarm};
use may::io::SplitIo;
use may::io::{CoIo, WaitIo};
use may::net::{TcpListener, TcpStream, UdpSocket};
use may::os::unix::net::{UnixDatagram, UnixStream};
use std::io::{Read, Write};
use std::net::Shutdown;
use std::os::unix::io::{AsRawFd, FromRawFd, IntoRawFd};
use std::sync::atomic::{AtomicBool, AtomicU32, Ordering};
use std::sync::Arc;

pub fn swarm() -> Swarm {
    Swarm {
        alloc_modes: true,
        io: true,
        stalls: true,
        stall_max_ns: 1_000_000,
        est_len: 8000,
        max_steps: 1_500_000,
        ..Default::default()
    }
}

pub fn set_bufs(fd: i32, snd: i32, rcv: i32) {
    unsafe {
        let l = std::mem::size_of::<i32>() as libc::socklen_t;
        libc::setsockopt(fd, libc::SOL_SOCKET, libc::SO_SNDBUF, &snd as *const _ as *const libc::c_void, l);
        libc::setsockopt(fd, libc::SOL_SOCKET, libc::SO_RCVBUF, &rcv as *const _ as *const libc::c_void, l);
    }
}

#[inline]
pub fn pat(seed: u64, conn: usize, dir: usize, i: usize) -> u8 {
    ((i as u64).wrapping_mul(131).wrapping_add(conn as u64 * 17 + dir as u64 * 7 + seed) % 251) as u8
}

/// a raw peer end: plain non-blocking std socket driven by a simulated thread, every
/// syscall is a schedule point, EAGAIN backs off in virtual time
struct RawEnd(std::os::unix::net::UnixStream);

impl Read for RawEnd {
    fn read(&mut self, buf: &mut [u8]) -> std::io::Result<usize> {
        let mut nap = 5_000u64;
        loop {
            engine::point();
            match self.0.read(buf) {
                Err(e) if e.kind() == std::io::ErrorKind::WouldBlock => {
                    engine::sleep(nap);
                    nap = (nap * 2).min(500_000);
                }
                r => return r,
            }
        }
    }
}

impl Write for RawEnd {
    fn write(&mut self, buf: &[u8]) -> std::io::Result<usize> {
        let mut nap = 5_000u64;
        loop {
            engine::point();
            match self.0.write(buf) {
                Err(e) if e.kind() == std::io::ErrorKind::WouldBlock => {
                    engine::sleep(nap);
                    nap = (nap * 2).min(500_000);
                }
                r => return r,
            }
        }
    }
    fn flush(&mut self) -> std::io::Result<()> {
        Ok(())
    }
}

type R = Box<dyn Read + Send>;
type W = Box<dyn Write + Send>;

#[derive(Debug, Clone, Copy, PartialEq)]
enum Transport {
    UnixPair,
    UnixRawWriter,
    UnixRawReader,
    Tcp,
    UnixSplit,
    /// std sockets wrapped by `CoIo::new`; the reader does the syscalls itself on the inner
    /// socket and blocks with `WaitIo::wait_io` (coroutine only)
    CoIoWait,
}

#[derive(Debug, Clone)]
struct Conn {
    transport: Transport,
    bytes: usize,
    chunk: Vec<usize>,
    rbuf: Vec<usize>,
    writer: Ctx,
    reader: Ctx,
    write_all: bool,
    small_bufs: bool,
    /// the same connection also carries a stream in the other direction
    duplex_bytes: Option<usize>,
    /// plain `write` calls become `write_vectored` over 1-3 slices (TcpStream has its own
    /// vectored path, the others fall back to std's default)
    vectored: bool,
    /// the writer waits after every write until the reader has taken the bytes
    lock_step: bool,
    /// the reader's end has a read timeout and the reader simply retries after a time-out: the
    /// stream must still arrive complete (a time-out that races with arriving data loses nothing)
    read_timeout: Option<u64>,
}

#[derive(Debug)]
struct Params {
    rt: RtCfg,
    conns: Vec<Conn>,
}

fn gen(seed: u64) -> Params {
    let mut r = gen_rng(seed);
    let rt = RtCfg::gen(&mut r, 3);
    let n = r.range(1, 3) as usize;
    let conns = (0..n)
        .map(|_| {
            let transport = *r.pick(&[Transport::UnixPair, Transport::UnixPair, Transport::UnixRawWriter, Transport::UnixRawReader, Transport::Tcp, Transport::UnixSplit]);
            let bytes = match r.below(6) {
                0 => 0,
                1 => r.range(1, 40) as usize,
                2 => r.range(100, 3000) as usize,
                3 => r.range(3000, 12_000) as usize,
                _ => r.range(12_000, 40_000) as usize,
            };
            let k = r.range(1, 4) as usize;
            let chunk = (0..k).map(|_| *r.pick(&[1usize, 7, 64, 500, 1024, 4096, 8192, 20_000])).collect();
            let rbuf: Vec<usize> = (0..k).map(|_| *r.pick(&[1usize, 3, 50, 512, 1500, 4096, 16_384])).collect();
            // bound the number of syscalls of a connection (a 33 KB stream written byte by byte is
            // 33 000 writes, about 1.5 M schedule points: it ran into the step budget in the
            // thorough tier and was reported as a livelock - a limit of the harness, not a finding)
            let chunk: Vec<usize> = chunk;
            let avg_w = (chunk.iter().sum::<usize>() / chunk.len()).max(1);
            let avg_r = (rbuf.iter().sum::<usize>() / rbuf.len()).max(1);
            let bytes = bytes.min(2500 * avg_w).min(2500 * avg_r);
            let duplex = transport != Transport::UnixRawWriter && transport != Transport::UnixRawReader && r.chance(1, 3);
            Conn {
                transport,
                bytes,
                chunk,
                rbuf,
                writer: Ctx::gen(&mut r),
                reader: Ctx::gen(&mut r),
                write_all: r.chance(1, 2),
                small_bufs: r.chance(2, 3),
                duplex_bytes: if duplex { Some(r.range(0, 9000) as usize) } else { None },
                vectored: false,
                lock_step: false,
                read_timeout: None,
            }
        })
        .collect();
    let mut conns: Vec<Conn> = conns;
    // drawn last: everything above is the same as before these variants existed
    for c in conns.iter_mut() {
        let v = r.below(4);
        if c.transport == Transport::UnixPair && v % 2 == 0 {
            c.transport = Transport::CoIoWait;
            c.reader = Ctx::Co;
        }
        c.vectored = v >= 2;
        c.lock_step = r.chance(1, 3);
        if (c.transport == Transport::UnixPair || c.transport == Transport::Tcp) && r.chance(1, 3) {
            c.read_timeout = Some(*r.pick(&[100_000u64, 300_000, 1_000_000, 3_000_000]));
        }
        if c.lock_step {
            // every write is followed by a wait for the reader: keep the number of writes small
            let avg_w = (c.chunk.iter().sum::<usize>() / c.chunk.len()).max(1);
            c.bytes = c.bytes.min(60 * avg_w);
            if let Some(d) = c.duplex_bytes.as_mut() {
                *d = (*d).min(60 * avg_w);
            }
        }
    }
    Params { rt, conns }
}

/// shared by the writer and the reader of one direction of a connection
struct DirState {
    done_writing: AtomicBool,
    /// bytes the reader has taken so far
    consumed: std::sync::atomic::AtomicUsize,
}

impl DirState {
    fn new() -> Arc<DirState> {
        Arc::new(DirState { done_writing: AtomicBool::new(false), consumed: std::sync::atomic::AtomicUsize::new(0) })
    }
}

fn writer_body(seed: u64, ci: usize, dir: usize, mut w: W, c: &Conn, total: usize, st: &DirState, shutdown: impl FnOnce()) {
    let done_writing = &st.done_writing;
    let who = format!("writer c{} d{}", ci, dir);
    let mut off = 0usize;
    let mut k = 0usize;
    while off < total {
        let want = c.chunk[k % c.chunk.len()].min(total - off);
        k += 1;
        let data: Vec<u8> = (off..off + want).map(|i| pat(seed, ci, dir, i)).collect();
        let o = OPS.begin(format!("{} write of {} bytes at offset {}", who, want, off));
        if c.write_all {
            if let Err(e) = w.write_all(&data) {
                violation(&format!("{}: write_all failed at offset {}: {}", who, off, e));
            }
            off += want;
        } else {
            let res = if c.vectored {
                // 1-3 slices, possibly an empty one in front
                let a = (k * 7) % (want + 1);
                let b = a + ((k * 13) % (want - a + 1));
                let slices = [std::io::IoSlice::new(&data[..a]), std::io::IoSlice::new(&data[a..b]), std::io::IoSlice::new(&data[b..])];
                w.write_vectored(&slices)
            } else {
                w.write(&data)
            };
            match res {
                Ok(0) => violation(&format!("{}: write returned 0 for {} bytes", who, want)),
                Ok(n) => {
                    if n > want {
                        violation(&format!("{}: write of {} bytes returned {}", who, want, n));
                    }
                    off += n;
                }
                Err(e) => violation(&format!("{}: write failed at offset {}: {}", who, off, e)),
            }
        }
        o.done();
        if c.lock_step {
            // request / response traffic: the next write comes only when the reader has taken
            // everything written so far - the readiness event of EVERY write is the last one for
            // a while, a reader that misses it is not rescued by the event of the next write
            let o = OPS.begin(format!("{} waits for the reader to take the first {} bytes", who, off));
            let mut spins = 0u32;
            let mut nap = 10_000u64;
            while st.consumed.load(Ordering::Relaxed) < off {
                if !may::coroutine::is_coroutine() {
                    // a thread wakes at the very step the reader reports its progress
                    engine::wait_key(&st.consumed as *const _ as usize, Some(5_000_000));
                    continue;
                }
                spins += 1;
                if spins < 8 {
                    rt::relax();
                } else {
                    rt::nap(nap);
                    nap = (nap * 2).min(2_000_000);
                }
            }
            o.done();
            if let Some(d) = c.read_timeout {
                // the reader is (about to be) blocked again with a fresh time-out: let the next
                // piece of data arrive around the moment that time-out expires
                if off < total {
                    let early = [0u64, 50, 200, 1_000, 5_000, d / 2][k % 6];
                    rt::nap(d.saturating_sub(early));
                }
            }
        }
    }
    done_writing.store(true, Ordering::Relaxed);
    // half-close first: the fd must still be open (and not reused) for the shutdown
    shutdown();
    drop(w);
}

fn reader_body(seed: u64, ci: usize, dir: usize, mut r: R, c: &Conn, total: usize, st: &DirState) {
    let done_writing = &st.done_writing;
    let who = format!("reader c{} d{}", ci, dir);
    let mut off = 0usize;
    let mut k = 0usize;
    let mut timeouts = 0u32;
    loop {
        let cap = c.rbuf[k % c.rbuf.len()];
        k += 1;
        let mut buf = vec![0xEEu8; cap];
        let o = OPS.begin(format!("{} read (buffer {}) at offset {}", who, cap, off));
        let res = r.read(&mut buf);
        o.done();
        match res {
            Ok(0) => {
                if off != total {
                    violation(&format!(
                        "{}: read returned 0 (end of stream) at offset {} of {}: bytes lost",
                        who, off, total
                    ));
                }
                if !done_writing.load(Ordering::Relaxed) {
                    violation(&format!("{}: read returned 0 before the peer finished writing", who));
                }
                return;
            }
            Ok(n) => {
                if n > cap {
                    violation(&format!("{}: read into {} bytes returned {}", who, cap, n));
                }
                for (j, b) in buf[..n].iter().enumerate() {
                    let i = off + j;
                    if i >= total {
                        violation(&format!("{}: received more than the {} bytes that were written", who, total));
                    }
                    if *b != pat(seed, ci, dir, i) {
                        violation(&format!(
                            "{}: byte {} of the stream is {:#x}, expected {:#x} (lost, duplicated, reordered or foreign data)",
                            who,
                            i,
                            b,
                            pat(seed, ci, dir, i)
                        ));
                    }
                }
                off += n;
                st.consumed.store(off, Ordering::Relaxed);
                engine::notify(&st.consumed as *const _ as usize);
            }
            Err(e) if c.read_timeout.is_some() && (e.kind() == std::io::ErrorKind::TimedOut || e.kind() == std::io::ErrorKind::WouldBlock) => {
                timeouts += 1;
                if timeouts > 50_000 {
                    violation(&format!("{}: 50000 read time-outs at offset {} of {}", who, off, total));
                }
            }
            Err(e) => violation(&format!("{}: read failed at offset {}: {}", who, off, e)),
        }
    }
}

static ACCEPTED: AtomicU32 = AtomicU32::new(0);

pub fn run_stream(seed: u64, mut ov: impl FnMut(&mut engine::Cfg)) -> ! {
    let p = gen(seed);
    let mut cfg = swarm_cfg(seed, &swarm());
    ov(&mut cfg);
    engine::init(cfg);
    engine::set_extra("params", engine::json_str(&format!("{:?}", p)));
    if p.conns.iter().any(|c| c.transport == Transport::Tcp) {
        // loopback TCP is delivered in softirq context, which under CPU load is not synchronous
        // with the sending syscall: such runs are real executions with a controlled schedule but
        // not bit-for-bit repeatable; the driver keeps them out of the determinism accounting
        engine::set_extra("kernel_nondet", "true".to_string());
    }
    rt::boot(&p.rt);
    engine::set_diag(|| format!("in flight: {}", OPS.pending()));
    engine::set_vt_limit(engine::now() + 3_000_000_000);

    let mut actors: Vec<Actor> = Vec::new();
    for (ci, c) in p.conns.iter().cloned().enumerate() {
        // build the two ends: (writer side A, reader side B)
        type End = (Option<R>, Option<W>, Box<dyn FnOnce() + Send>);
        let (a, b): (End, End) = match c.transport {
            Transport::UnixPair | Transport::UnixSplit => {
                let (s1, s2) = UnixStream::pair().expect("pair");
                if c.small_bufs {
                    set_bufs(s1.as_raw_fd(), 2304, 2304);
                    set_bufs(s2.as_raw_fd(), 2304, 2304);
                }
                if c.transport == Transport::UnixSplit {
                    let (r1, w1) = s1.split().expect("split");
                    let (r2, w2) = s2.split().expect("split");
                    // half-close through the writer half's own fd: it is open as long as the
                    // writer half lives (the reader half may be closed earlier by its actor)
                    let (f1, f2) = (w1.as_raw_fd(), w2.as_raw_fd());
                    KEEP_FDS.lock().unwrap().push((f1, f2));
                    (
                        (Some(Box::new(r1) as R), Some(Box::new(w1) as W), Box::new(move || unsafe {
                            libc::shutdown(f1, libc::SHUT_WR);
                        })),
                        (Some(Box::new(r2) as R), Some(Box::new(w2) as W), Box::new(move || unsafe {
                            libc::shutdown(f2, libc::SHUT_WR);
                        })),
                    )
                } else {
                    let s1c = s1.try_clone().expect("clone");
                    let s2c = s2.try_clone().expect("clone");
                    if let Some(d) = c.read_timeout {
                        s1c.set_read_timeout(Some(std::time::Duration::from_nanos(d))).expect("set_read_timeout");
                        s2c.set_read_timeout(Some(std::time::Duration::from_nanos(d))).expect("set_read_timeout");
                    }
                    let (f1, f2) = (s1.as_raw_fd(), s2.as_raw_fd());
                    let sh = move |fd: i32| {
                        move || unsafe {
                            libc::shutdown(fd, libc::SHUT_WR);
                        }
                    };
                    (
                        (Some(Box::new(s1c) as R), Some(Box::new(KeepFd(s1)) as W), Box::new(sh(f1))),
                        (Some(Box::new(s2c) as R), Some(Box::new(KeepFd(s2)) as W), Box::new(sh(f2))),
                    )
                }
            }
            Transport::UnixRawWriter | Transport::UnixRawReader => {
                let (x, y) = std::os::unix::net::UnixStream::pair().expect("pair");
                if c.small_bufs {
                    set_bufs(x.as_raw_fd(), 2304, 2304);
                    set_bufs(y.as_raw_fd(), 2304, 2304);
                }
                x.set_nonblocking(true).unwrap();
                let may_end = unsafe { UnixStream::from_raw_fd(y.into_raw_fd()) };
                let xfd = x.as_raw_fd();
                let mfd = may_end.as_raw_fd();
                let raw_r = RawEnd(x.try_clone().unwrap());
                let raw_w = RawEnd(x);
                let may_r = may_end.try_clone().expect("clone");
                let raw: End = (Some(Box::new(raw_r) as R), Some(Box::new(raw_w) as W), Box::new(move || unsafe {
                    libc::shutdown(xfd, libc::SHUT_WR);
                }));
                let mayp: End = (Some(Box::new(may_r) as R), Some(Box::new(KeepFd(may_end)) as W), Box::new(move || unsafe {
                    libc::shutdown(mfd, libc::SHUT_WR);
                }));
                if c.transport == Transport::UnixRawWriter {
                    (raw, mayp)
                } else {
                    (mayp, raw)
                }
            }
            Transport::CoIoWait => {
                let (x, y) = std::os::unix::net::UnixStream::pair().expect("pair");
                if c.small_bufs {
                    set_bufs(x.as_raw_fd(), 2304, 2304);
                    set_bufs(y.as_raw_fd(), 2304, 2304);
                }
                let mk = |s: std::os::unix::net::UnixStream| CoIo::new(s).unwrap_or_else(|_| violation("CoIo::new failed"));
                let (xr, yr) = (mk(x.try_clone().expect("clone")), mk(y.try_clone().expect("clone")));
                let (xw, yw) = (mk(x), mk(y));
                let (fx, fy) = (xw.as_raw_fd(), yw.as_raw_fd());
                (
                    (Some(Box::new(WaitIoReader(xr)) as R), Some(Box::new(xw) as W), Box::new(move || unsafe {
                        libc::shutdown(fx, libc::SHUT_WR);
                    })),
                    (Some(Box::new(WaitIoReader(yr)) as R), Some(Box::new(yw) as W), Box::new(move || unsafe {
                        libc::shutdown(fy, libc::SHUT_WR);
                    })),
                )
            }
            Transport::Tcp => {
                let l = TcpListener::bind("127.0.0.1:0").expect("bind");
                let addr = l.local_addr().unwrap();
                let slot: Arc<std::sync::Mutex<Option<TcpStream>>> = Arc::new(std::sync::Mutex::new(None));
                let s2 = slot.clone();
                let acc = rt::spawn_actor(c.reader, &format!("acceptor{}", ci), move || {
                    let o = OPS.begin("accept".to_string());
                    let (s, _) = l.accept().unwrap_or_else(|e| violation(&format!("accept failed: {}", e)));
                    o.done();
                    ACCEPTED.fetch_add(1, Ordering::Relaxed);
                    *s2.lock().unwrap() = Some(s);
                });
                let cslot: Arc<std::sync::Mutex<Option<TcpStream>>> = Arc::new(std::sync::Mutex::new(None));
                let c2 = cslot.clone();
                let con = rt::spawn_actor(c.writer, &format!("connector{}", ci), move || {
                    let o = OPS.begin("connect".to_string());
                    let s = TcpStream::connect(addr).unwrap_or_else(|e| violation(&format!("connect failed: {}", e)));
                    o.done();
                    *c2.lock().unwrap() = Some(s);
                });
                rt::await_actors(&[acc, con], engine::now() + 500_000_000);
                let sa = cslot.lock().unwrap().take().unwrap();
                let sb = slot.lock().unwrap().take().unwrap();
                sa.set_nodelay(true).unwrap();
                sb.set_nodelay(true).unwrap();
                // TCP keeps its default (large) buffers: with minimal ones the transfer depends on
                // the kernel's real-time persist / delayed-ack timers, which the virtual clock
                // does not drive; blocking writers are exercised on AF_UNIX sockets instead
                let _ = c.small_bufs;
                let (sac, sbc) = (sa.try_clone().expect("clone"), sb.try_clone().expect("clone"));
                if let Some(d) = c.read_timeout {
                    sac.set_read_timeout(Some(std::time::Duration::from_nanos(d))).expect("set_read_timeout");
                    sbc.set_read_timeout(Some(std::time::Duration::from_nanos(d))).expect("set_read_timeout");
                }
                let (fa, fb) = (sa.as_raw_fd(), sb.as_raw_fd());
                (
                    (Some(Box::new(sac) as R), Some(Box::new(KeepTcp(sa)) as W), Box::new(move || unsafe {
                        libc::shutdown(fa, libc::SHUT_WR);
                    })),
                    (Some(Box::new(sbc) as R), Some(Box::new(KeepTcp(sb)) as W), Box::new(move || unsafe {
                        libc::shutdown(fb, libc::SHUT_WR);
                    })),
                )
            }
        };
        let (a_r, a_w, a_sh) = a;
        let (b_r, b_w, b_sh) = b;
        // raw ends must be driven by plain threads
        let (wctx, rctx) = match c.transport {
            Transport::UnixRawWriter => (Ctx::Thread, c.reader),
            Transport::UnixRawReader => (c.writer, Ctx::Thread),
            // wait_io is for coroutines only, and with a duplex stream either side reads
            Transport::CoIoWait => (Ctx::Co, Ctx::Co),
            _ => (c.writer, c.reader),
        };
        // direction 0: A writes, B reads
        let done0 = DirState::new();
        {
            let (c2, d) = (c.clone(), done0.clone());
            let w = a_w.unwrap();
            actors.push(rt::spawn_actor(wctx, &format!("writer{}d0", ci), move || writer_body(seed, ci, 0, w, &c2, c2.bytes, &d, a_sh)));
        }
        {
            let (c2, d) = (c.clone(), done0.clone());
            let r = b_r.unwrap();
            actors.push(rt::spawn_actor(rctx, &format!("reader{}d0", ci), move || reader_body(seed, ci, 0, r, &c2, c2.bytes, &d)));
        }
        // direction 1 on the same connection
        match c.duplex_bytes {
            Some(n) => {
                let done1 = DirState::new();
                {
                    let (c2, d) = (c.clone(), done1.clone());
                    let w = b_w.unwrap();
                    actors.push(rt::spawn_actor(rctx, &format!("writer{}d1", ci), move || writer_body(seed, ci, 1, w, &c2, n, &d, b_sh)));
                }
                {
                    let (c2, d) = (c.clone(), done1.clone());
                    let r = a_r.unwrap();
                    actors.push(rt::spawn_actor(wctx, &format!("reader{}d1", ci), move || reader_body(seed, ci, 1, r, &c2, n, &d)));
                }
            }
            None => {
                // keep the unused halves alive until the end (dropping them would close fds)
                let keep = (a_r, b_w);
                KEEP.lock().unwrap().push(Box::new(keep));
                drop(b_sh);
            }
        }
    }
    let deadline = engine::now() + 2_000_000_000;
    rt::await_actors(&actors, deadline);
    for a in actors.iter_mut() {
        rt::expect_end(a, false);
    }
    engine::finish_ok()
}

static KEEP: std::sync::Mutex<Vec<Box<dyn std::any::Any + Send>>> = std::sync::Mutex::new(Vec::new());
static KEEP_FDS: std::sync::Mutex<Vec<(i32, i32)>> = std::sync::Mutex::new(Vec::new());

/// keeps the stream object (and its fd registration) alive inside the writer
struct KeepFd(UnixStream);
impl Write for KeepFd {
    fn write(&mut self, b: &[u8]) -> std::io::Result<usize> {
        self.0.write(b)
    }
    fn flush(&mut self) -> std::io::Result<()> {
        self.0.flush()
    }
}
/// a reader that does its own non-blocking reads on the inner socket and blocks with wait_io
struct WaitIoReader(CoIo<std::os::unix::net::UnixStream>);
impl Read for WaitIoReader {
    fn read(&mut self, buf: &mut [u8]) -> std::io::Result<usize> {
        let mut waits = 0u32;
        loop {
            engine::point();
            match (&*self.0.inner()).read(buf) {
                Err(e) if e.kind() == std::io::ErrorKind::WouldBlock => {
                    waits += 1;
                    if waits > 100_000 {
                        violation("wait_io keeps returning although the socket has nothing to read (busy loop)");
                    }
                    self.0.wait_io();
                }
                r => return r,
            }
        }
    }
}
struct KeepTcp(TcpStream);
impl Write for KeepTcp {
    fn write(&mut self, b: &[u8]) -> std::io::Result<usize> {
        self.0.write(b)
    }
    fn write_vectored(&mut self, bufs: &[std::io::IoSlice<'_>]) -> std::io::Result<usize> {
        self.0.write_vectored(bufs)
    }
    fn flush(&mut self) -> std::io::Result<()> {
        self.0.flush()
    }
}

// ------------------------------------------------------------------------------------------------
// datagrams
// ------------------------------------------------------------------------------------------------

#[derive(Debug)]
struct ParamsD {
    rt: RtCfg,
    udp: bool,
    sizes: Vec<usize>,
    sender: Ctx,
    receiver: Ctx,
    rbuf: usize,
}

fn gen_d(seed: u64) -> ParamsD {
    let mut r = gen_rng(seed);
    let rt = RtCfg::gen(&mut r, 3);
    let n = r.range(1, 24) as usize;
    ParamsD {
        rt,
        udp: r.chance(1, 3),
        sizes: (0..n).map(|_| *r.pick(&[4usize, 5, 16, 100, 512, 1400, 1500])).collect(),
        sender: Ctx::gen(&mut r),
        receiver: Ctx::gen(&mut r),
        rbuf: *r.pick(&[2048usize, 1500, 4096]),
    }
}

fn dgram(seed: u64, k: usize, len: usize) -> Vec<u8> {
    let mut v = vec![0u8; len.max(4)];
    v[..4].copy_from_slice(&(k as u32).to_le_bytes());
    for i in 4..v.len() {
        v[i] = pat(seed, k, 3, i);
    }
    v
}

static RECEIVED: AtomicU32 = AtomicU32::new(0);

pub fn run_dgram(seed: u64, mut ov: impl FnMut(&mut engine::Cfg)) -> ! {
    let p = gen_d(seed);
    let mut cfg = swarm_cfg(seed, &swarm());
    ov(&mut cfg);
    engine::init(cfg);
    engine::set_extra("params", engine::json_str(&format!("{:?}", p)));
    if p.udp {
        // loopback UDP is delivered in softirq context: see c17s
        engine::set_extra("kernel_nondet", "true".to_string());
    }
    rt::boot(&p.rt);
    engine::set_diag(|| format!("in flight: {}", OPS.pending()));
    engine::set_vt_limit(engine::now() + 3_000_000_000);

    enum S {
        Unix(UnixDatagram),
        Udp(UdpSocket),
    }
    impl S {
        fn send(&self, b: &[u8]) -> std::io::Result<usize> {
            match self {
                S::Unix(s) => s.send(b),
                S::Udp(s) => s.send(b),
            }
        }
        fn recv(&self, b: &mut [u8]) -> std::io::Result<usize> {
            match self {
                S::Unix(s) => s.recv(b),
                S::Udp(s) => s.recv(b),
            }
        }
    }
    let (tx, rx) = if p.udp {
        let a = UdpSocket::bind("127.0.0.1:0").expect("bind");
        let b = UdpSocket::bind("127.0.0.1:0").expect("bind");
        a.connect(b.local_addr().unwrap()).unwrap();
        b.connect(a.local_addr().unwrap()).unwrap();
        (S::Udp(a), S::Udp(b))
    } else {
        let (a, b) = UnixDatagram::pair().expect("pair");
        // a small queue makes the sender block (AF_UNIX datagrams are reliable)
        set_bufs(a.as_raw_fd(), 2304, 2304);
        set_bufs(b.as_raw_fd(), 2304, 2304);
        (S::Unix(a), S::Unix(b))
    };
    let sizes = Arc::new(p.sizes.clone());
    let n = sizes.len();
    let udp = p.udp;
    let mut actors: Vec<Actor> = Vec::new();
    {
        let sizes = sizes.clone();
        actors.push(rt::spawn_actor(p.sender, "sender", move || {
            for (k, len) in sizes.iter().enumerate() {
                if udp {
                    // UDP may drop on overflow: stop and wait (window 2) keeps it lossless
                    while RECEIVED.load(Ordering::Relaxed) + 2 <= k as u32 {
                        rt::nap(50_000);
                    }
                }
                let d = dgram(seed, k, *len);
                let o = OPS.begin(format!("send of datagram {} ({} bytes)", k, d.len()));
                match tx.send(&d) {
                    Ok(m) if m == d.len() => {}
                    Ok(m) => violation(&format!("send of a {} byte datagram returned {}", d.len(), m)),
                    Err(e) => violation(&format!("send of datagram {} failed: {}", k, e)),
                }
                o.done();
            }
        }));
    }
    {
        let sizes = sizes.clone();
        let cap = p.rbuf;
        actors.push(rt::spawn_actor(p.receiver, "receiver", move || {
            for k in 0..n {
                let mut buf = vec![0u8; cap];
                let o = OPS.begin(format!("recv of datagram {}", k));
                let r = rx.recv(&mut buf);
                o.done();
                match r {
                    Ok(m) => {
                        let want = dgram(seed, k, sizes[k]);
                        let expect = want.len().min(cap);
                        if m != expect || buf[..m] != want[..expect] {
                            let id = if m >= 4 { u32::from_le_bytes([buf[0], buf[1], buf[2], buf[3]]) } else { u32::MAX };
                            violation(&format!(
                                "datagram {}: received {} bytes (id {}), expected {} bytes: boundary not kept, reordered or corrupted",
                                k, m, id, expect
                            ));
                        }
                        RECEIVED.fetch_add(1, Ordering::Relaxed);
                    }
                    Err(e) => violation(&format!("recv of datagram {} failed: {}", k, e)),
                }
            }
        }));
    }
    rt::await_actors(&actors, engine::now() + 2_000_000_000);
    for a in actors.iter_mut() {
        rt::expect_end(a, false);
    }
    engine::finish_ok()
}
