//! C15 — coroutine-local storage is private; a fresh coroutine starts clean (no local values,
//! no pending cancel, no stale timeout / error result from the previous user of its stack)

use crate::engine::{self, violation};
use crate::oracle::Scripted;
use crate::rt::{self, Actor, Ctx, RtCfg, OPS};
use crate::{gen_rng, swarm_cfg, Swarm};
use may::coroutine::{self, ParkError};
use may::sync::{mpsc, Blocker, Mutex, Semphore};
use std::cell::Cell;
use std::sync::atomic::{AtomicBool, AtomicU32, AtomicU8, Ordering};
use std::sync::Arc;
use std::time::Duration;

pub fn swarm() -> Swarm {
    Swarm {
        alloc_modes: true,
        stalls: true,
        stall_max_ns: 2_000_000,
        est_len: 6000,
        max_steps: 800_000,
        ..Default::default()
    }
}

const MAXV: usize = 1024;
#[allow(clippy::declare_interior_mutable_const)]
const Z8: AtomicU8 = AtomicU8::new(0);
#[allow(clippy::declare_interior_mutable_const)]
const ZB: AtomicBool = AtomicBool::new(false);
/// 0 unused, 1 live, 2 dropped
static VALS: [AtomicU8; MAXV] = [Z8; MAXV];
static NEXT_SERIAL: AtomicU32 = AtomicU32::new(1);
static FINISHED: [AtomicBool; 256] = [ZB; 256];

/// a local value: knows who owns it and whether it was created inside a coroutine
struct LV {
    serial: u32,
    owner: Cell<u32>,
    in_co: bool,
    key: u8,
}

impl LV {
    fn init(key: u8) -> LV {
        let serial = NEXT_SERIAL.fetch_add(1, Ordering::Relaxed);
        assert!((serial as usize) < MAXV);
        VALS[serial as usize].store(1, Ordering::Relaxed);
        LV { serial, owner: Cell::new(0), in_co: coroutine::is_coroutine(), key }
    }
}

impl Drop for LV {
    fn drop(&mut self) {
        let old = VALS[self.serial as usize].swap(2, Ordering::Relaxed);
        if old != 1 {
            violation(&format!("coroutine-local value #{} (key {}) dropped twice", self.serial, self.key));
        }
        let o = self.owner.get();
        if self.in_co && o != 0 && !FINISHED[o as usize].load(Ordering::Relaxed) {
            violation(&format!(
                "coroutine-local value #{} (key {}) of coroutine {} dropped while that coroutine is still running",
                self.serial, self.key, o
            ));
        }
    }
}

may::coroutine_local!(static KEY_A: LV = LV::init(0));
may::coroutine_local!(static KEY_B: LV = LV::init(1));
may::coroutine_local!(static KEY_C: LV = LV::init(2));

fn with_key<R>(k: u8, f: impl FnOnce(&LV) -> R) -> R {
    match k {
        0 => KEY_A.with(f),
        1 => KEY_B.with(f),
        _ => KEY_C.with(f),
    }
}

/// access key `inner` from inside the closure of an access to key `outer` ("for all access
/// patterns": a local used while another one is being used, the inner one possibly for the first
/// time)
fn touch_nested(me: u32, outer: u8, inner: u8, first: &mut [bool; 3]) {
    with_key(outer, |v| {
        if v.key != outer {
            violation(&format!("{}: key {} handed out the value of key {}", me, outer, v.key));
        }
        if first[outer as usize] {
            if v.owner.get() != 0 {
                violation(&format!("{}: first access to local key {} found the value of {}", me, outer, v.owner.get()));
            }
            v.owner.set(me);
            first[outer as usize] = false;
        } else if v.owner.get() != me {
            violation(&format!("{}: local key {} reads owner {} (value lost, re-initialised or leaked)", me, outer, v.owner.get()));
        }
        touch(me, inner, first);
        if v.owner.get() != me {
            violation(&format!("{}: local key {} changed owner to {} while key {} was accessed inside its closure", me, outer, v.owner.get(), inner));
        }
    })
}

/// first access: must be a fresh (unowned) value; later accesses: our own
fn touch(me: u32, k: u8, first: &mut [bool; 3]) {
    with_key(k, |v| {
        if v.key != k {
            violation(&format!("{}: key {} handed out the value of key {}", me, k, v.key));
        }
        if first[k as usize] {
            if v.owner.get() != 0 {
                violation(&format!(
                    "{}: first access to local key {} found the value of {} (inherited from another coroutine / thread)",
                    me,
                    k,
                    v.owner.get()
                ));
            }
            v.owner.set(me);
            first[k as usize] = false;
        } else if v.owner.get() != me {
            violation(&format!("{}: local key {} reads owner {} (value lost, re-initialised or leaked)", me, k, v.owner.get()));
        }
        if v.in_co != coroutine::is_coroutine() {
            violation(&format!("{}: local key {} created in the other kind of context", me, k));
        }
    })
}

struct Fin(u32);
impl Drop for Fin {
    fn drop(&mut self) {
        FINISHED[self.0 as usize].store(true, Ordering::Relaxed);
    }
}

/// sockets kept open until the end of the run (a close would end the successor's read as well)
static KEEP: std::sync::Mutex<Vec<Box<dyn std::any::Any + Send>>> = std::sync::Mutex::new(Vec::new());

#[derive(Debug, Clone, Copy, PartialEq)]
enum Ending {
    Normal,
    Panic,
    CancelWhileParked,
    TimedOutPark,
    TimeoutCancelRace,
    TimedOutSem,
    /// blocked in Semphore::wait / Mutex::lock; cancel() and the awaited event arrive back to back
    CancelPostRace,
    CancelUnlockRace,
    /// a select! whose two arms become ready back to back: the loser is cancelled while it
    /// finishes (its coroutine, not the predecessor's, is what goes back to the pool)
    SelectRace,
    /// cancelled while parked; a value on its stack yields in its destructor (user code may do
    /// that), i.e. the coroutine passes through a yield while the cancel unwinds it
    CancelYieldInDrop,
    /// the predecessor's JoinHandle is dropped at once and it ends by a panic: nobody fetches
    /// the payload through join
    DetachedPanic,
}

#[derive(Debug, Clone, Copy, PartialEq)]
enum First {
    BlockerPark,
    SemWait,
    Recv,
    Lock,
    Sleep,
    LocalRead,
    Yield,
    /// the successor parks and is cancelled: its join must report Cancel - and not, say, the panic
    /// payload of the stack's previous user
    CancelledPark,
    /// a socket read that has to wait for its data (io calls look at the resume parameter first)
    IoRead,
}

#[derive(Debug)]
struct Params {
    rt: RtCfg,
    rounds: Vec<(Ending, First, bool)>, // predecessor ending, successor first action, predecessor used locals
    background: Vec<(Ctx, Vec<u8>)>,    // steps: 0 touch A, 1 touch B, 2 touch C, 3 yield, 4 sleep
}

fn gen(seed: u64) -> Params {
    let mut r = gen_rng(seed);
    let mut rt = RtCfg::gen(&mut r, 3);
    rt.pool_cap = *r.pick(&[1usize, 1, 2]);
    let n = r.range(1, 4) as usize;
    let rounds = (0..n)
        .map(|_| {
            (
                *r.pick(&[Ending::Normal, Ending::Panic, Ending::CancelWhileParked, Ending::TimedOutPark, Ending::TimeoutCancelRace, Ending::TimedOutSem, Ending::CancelPostRace, Ending::CancelUnlockRace, Ending::SelectRace, Ending::CancelYieldInDrop]),
                *r.pick(&[First::BlockerPark, First::SemWait, First::Recv, First::Lock, First::Sleep, First::LocalRead, First::Yield, First::IoRead, First::IoRead]),
                r.chance(2, 3),
            )
        })
        .collect();
    let nb = r.range(1, 4) as usize;
    let background = (0..nb)
        .map(|_| {
            let k = r.range(2, 7) as usize;
            (Ctx::gen(&mut r), (0..k).map(|_| r.below(5) as u8).collect())
        })
        .collect();
    // a destructor that yields while its coroutine unwinds is legal user code, but std counts
    // panics per OS thread: if such a coroutine came back on another worker both workers would
    // keep a wrong count for good (nothing may claims anything about that). One worker: the
    // count is right again as soon as the unwinding is over
    let mut rounds: Vec<(Ending, First, bool)> = rounds;
    // drawn last: everything above is the same as before these variants existed
    for rd in rounds.iter_mut() {
        if r.chance(1, 6) {
            rd.0 = Ending::DetachedPanic;
        }
        if r.chance(1, 6) {
            rd.1 = First::CancelledPark;
        }
    }
    if rounds.iter().any(|r| r.0 == Ending::CancelYieldInDrop) {
        rt.workers = 1;
    }
    Params { rt, rounds, background }
}

pub fn run(seed: u64, mut ov: impl FnMut(&mut engine::Cfg)) -> ! {
    let p = gen(seed);
    let mut cfg = swarm_cfg(seed, &swarm());
    // real sockets are used by some successors: the engine then looks at the epoll fds
    cfg.io_always = p.rounds.iter().any(|r| r.1 == First::IoRead);
    ov(&mut cfg);
    engine::init(cfg);
    engine::set_extra("params", engine::json_str(&format!("{:?}", p)));
    rt::boot(&p.rt);
    engine::set_diag(|| format!("in flight: {}", OPS.pending()));
    engine::set_vt_limit(engine::now() + 300_000_000);

    // background users of the same keys: privacy across coroutines, threads and migrations
    let mut actors: Vec<Actor> = Vec::new();
    for (bi, (ctx, steps)) in p.background.iter().cloned().enumerate() {
        let me = 10 + bi as u32;
        actors.push(rt::spawn_actor(ctx, &format!("background{}", bi), move || {
            let _fin = Fin(me);
            let mut first = [true; 3];
            for s in steps {
                match s {
                    0..=2 if (me + s as u32) % 2 == 0 => touch_nested(me, s, (s + 1) % 3, &mut first),
                    0..=2 => touch(me, s, &mut first),
                    3 => rt::relax(),
                    _ => rt::nap(300_000),
                }
            }
            for k in 0..3u8 {
                if !first[k as usize] {
                    touch(me, k, &mut first);
                }
            }
        }));
    }

    let lock = Arc::new(Mutex::new(0u32));
    for (ri, (ending, first_action, used_locals)) in p.rounds.iter().cloned().enumerate() {
        let pred_id = 50 + 2 * ri as u32;
        let succ_id = 51 + 2 * ri as u32;
        // ---- predecessor
        let started = Arc::new(AtomicBool::new(false));
        let st2 = started.clone();
        let psem = Arc::new(Semphore::new(0));
        let plock = Arc::new(Mutex::new(0u32));
        let (psem2, plock2) = (psem.clone(), plock.clone());
        let (stx1, srx1) = mpsc::channel::<u32>();
        let (stx2, srx2) = mpsc::channel::<u32>();
        // the lock is held by us while the predecessor asks for it
        let mut held = if ending == Ending::CancelUnlockRace { Some(plock.lock().unwrap()) } else { None };
        let ph = unsafe {
            coroutine::spawn(move || {
                let _fin = Fin(pred_id);
                let mut first = [true; 3];
                if used_locals {
                    touch(pred_id, 0, &mut first);
                    touch(pred_id, 2, &mut first);
                }
                rt::set_flag(&st2);
                match ending {
                    Ending::Normal => coroutine::yield_now(),
                    Ending::Panic | Ending::DetachedPanic => std::panic::panic_any(Scripted(pred_id)),
                    Ending::CancelWhileParked => {
                        coroutine::park();
                        coroutine::park();
                    }
                    Ending::CancelYieldInDrop => {
                        struct YieldOnDrop;
                        impl Drop for YieldOnDrop {
                            fn drop(&mut self) {
                                coroutine::yield_now();
                            }
                        }
                        let _y = YieldOnDrop;
                        coroutine::park();
                        coroutine::park();
                    }
                    Ending::TimedOutPark => {
                        let b = Blocker::current();
                        match b.park(Some(Duration::from_millis(1))) {
                            Err(ParkError::Timeout) => {}
                            r => violation(&format!("predecessor park(1ms) returned {:?}", r)),
                        }
                    }
                    Ending::TimeoutCancelRace => {
                        let b = Blocker::current();
                        let _ = b.park(Some(Duration::from_millis(1)));
                    }
                    Ending::TimedOutSem => {
                        let s = Semphore::new(0);
                        if s.wait_timeout(Duration::from_millis(1)) {
                            violation("predecessor wait_timeout on an empty semaphore succeeded");
                        }
                    }
                    Ending::CancelPostRace => psem2.wait(),
                    Ending::SelectRace => {
                        let t = may::select!(
                            _ = srx1.recv() => {},
                            _ = srx2.recv() => {}
                        );
                        if t > 1 {
                            violation(&format!("select! returned token {}", t));
                        }
                    }
                    Ending::CancelUnlockRace => {
                        let mut g = plock2.lock().unwrap_or_else(|e| e.into_inner());
                        *g += 1;
                    }
                }
                if used_locals {
                    touch(pred_id, 0, &mut first);
                }
            })
        };
        match ending {
            Ending::CancelWhileParked | Ending::CancelYieldInDrop => {
                loop {
                    if rt::wait_flag(&started, 100) {
                        break;
                    }
                }
                rt::dally(3);
                unsafe { ph.coroutine().cancel() };
            }
            Ending::CancelPostRace | Ending::CancelUnlockRace => {
                loop {
                    if rt::wait_flag(&started, 100) {
                        break;
                    }
                }
                // let it block, then cancel and release back to back: the event may find the
                // coroutine already taken by the cancel but not yet resumed
                rt::dally(2 + ri as u32 * 3);
                unsafe { ph.coroutine().cancel() };
                if ending == Ending::CancelPostRace {
                    psem.post();
                } else {
                    held = None;
                }
            }
            Ending::SelectRace => {
                loop {
                    if rt::wait_flag(&started, 100) {
                        break;
                    }
                }
                rt::dally(4 + ri as u32 * 5);
                let _ = stx1.send(1);
                let _ = stx2.send(2);
            }
            Ending::TimeoutCancelRace => {
                loop {
                    if rt::wait_flag(&started, 100) {
                        break;
                    }
                }
                // the cancel lands around the expiry of the 1 ms park
                engine::sleep(1_000_000 - 2_000 + (ri as u64 % 3) * 2_000);
                unsafe { ph.coroutine().cancel() };
            }
            _ => {}
        }
        let o = OPS.begin(format!("join of predecessor {} ({:?})", pred_id, ending));
        let pr = if ending == Ending::DetachedPanic {
            // detached: wait for its end by other means, then give the runtime a moment to put
            // the stack back into the pool
            drop(ph);
            let mut spins = 0u32;
            while !FINISHED[pred_id as usize].load(Ordering::Relaxed) {
                rt::nap(20_000);
                spins += 1;
                if spins > 5_000 {
                    violation(&format!("detached predecessor {} never finished", pred_id));
                }
            }
            rt::nap(50_000);
            Ok(())
        } else {
            ph.join()
        };
        o.done();
        drop(held.take());
        match (ending, &pr) {
            (Ending::Panic, Err(e)) if e.downcast_ref::<Scripted>().map(|s| s.0) == Some(pred_id) => {}
            (Ending::CancelWhileParked, Err(e)) | (Ending::CancelYieldInDrop, Err(e)) | (Ending::TimeoutCancelRace, Err(e))
                if matches!(e.downcast_ref::<generator::Error>(), Some(generator::Error::Cancel)) => {}
            (Ending::TimeoutCancelRace, Ok(())) => {}
            (Ending::CancelPostRace, Err(e)) | (Ending::CancelUnlockRace, Err(e))
                if matches!(e.downcast_ref::<generator::Error>(), Some(generator::Error::Cancel)) => {}
            (Ending::CancelPostRace, Ok(())) | (Ending::CancelUnlockRace, Ok(())) => {}
            (Ending::DetachedPanic, Ok(())) => {}
            (Ending::Normal, Ok(())) | (Ending::TimedOutPark, Ok(())) | (Ending::TimedOutSem, Ok(())) | (Ending::SelectRace, Ok(())) => {}
            _ => violation(&format!("predecessor {} ({:?}) ended unexpectedly: ok={}", pred_id, ending, pr.is_ok())),
        }
        // ---- successor: takes the pooled stack the predecessor just gave back
        let b_slot: Arc<std::sync::Mutex<Option<Arc<Blocker>>>> = Arc::new(std::sync::Mutex::new(None));
        let sem = Arc::new(Semphore::new(0));
        let (tx, rx) = mpsc::channel::<u32>();
        let ready = Arc::new(AtomicBool::new(false));
        let io_pair = if first_action == First::IoRead { Some(may::os::unix::net::UnixStream::pair().expect("pair")) } else { None };
        let (io_a, io_rd) = match io_pair {
            Some((a, b)) => (Some(a), Some(b)),
            None => (None, None),
        };
        let (b2, sem2, ready2, lock2) = (b_slot.clone(), sem.clone(), ready.clone(), lock.clone());
        let sh = unsafe {
            coroutine::spawn(move || {
                let _fin = Fin(succ_id);
                let mut first = [true; 3];
                let t0 = engine::now();
                match first_action {
                    First::BlockerPark => {
                        let b = Blocker::current();
                        *b2.lock().unwrap() = Some(b.clone());
                        rt::set_flag(&ready2);
                        match b.park(Some(Duration::from_secs(3600))) {
                            Ok(()) => {}
                            Err(e) => violation(&format!(
                                "fresh coroutine {}: its first park reported {:?} (stale result of the stack's previous user, {:?})",
                                succ_id, e, ending
                            )),
                        }
                    }
                    First::SemWait => {
                        rt::set_flag(&ready2);
                        if !sem2.wait_timeout(Duration::from_secs(3600)) {
                            violation(&format!(
                                "fresh coroutine {}: its first wait_timeout(1 h) timed out at once (stale timeout of {:?})",
                                succ_id, ending
                            ));
                        }
                    }
                    First::Recv => {
                        rt::set_flag(&ready2);
                        match rx.recv_timeout(Duration::from_secs(3600)) {
                            Ok(42) => {}
                            r => violation(&format!("fresh coroutine {}: its first recv_timeout(1 h) returned {:?} (after {:?})", succ_id, r, ending)),
                        }
                    }
                    First::Lock => {
                        rt::set_flag(&ready2);
                        let mut g = lock2.lock().unwrap_or_else(|e| e.into_inner());
                        *g += 1;
                    }
                    First::Sleep => {
                        rt::set_flag(&ready2);
                        coroutine::sleep(Duration::from_millis(1));
                        if engine::now() < t0 + 1_000_000 {
                            violation(&format!("fresh coroutine {}: sleep(1 ms) returned after {} ns (after {:?})", succ_id, engine::now() - t0, ending));
                        }
                    }
                    First::LocalRead => {
                        rt::set_flag(&ready2);
                        touch(succ_id, 0, &mut first);
                        touch(succ_id, 2, &mut first);
                    }
                    First::Yield => {
                        rt::set_flag(&ready2);
                        coroutine::yield_now();
                    }
                    First::CancelledPark => {
                        rt::set_flag(&ready2);
                        coroutine::park();
                        coroutine::park();
                    }
                    First::IoRead => {
                        use std::io::Read;
                        let mut rd = io_rd.unwrap();
                        rt::set_flag(&ready2);
                        let mut buf = [0u8; 8];
                        match rd.read(&mut buf) {
                            Ok(3) if buf[..3] == [7, 8, 9] => {}
                            r => violation(&format!(
                                "fresh coroutine {}: its first socket read returned {:?} instead of the 3 bytes sent to it (stale result of the stack's previous user, {:?})",
                                succ_id, r, ending
                            )),
                        }
                    }
                }
                // whatever came first, the locals are fresh and stay ours; key 1 is used for the
                // first time from inside an access to key 0, which exists by then
                touch(succ_id, 0, &mut first);
                touch_nested(succ_id, 0, 1, &mut first);
                coroutine::yield_now();
                touch(succ_id, 0, &mut first);
                touch(succ_id, 1, &mut first);
                succ_id
            })
        };
        // give the successor what it waits for
        loop {
            if rt::wait_flag(&ready, 100) {
                break;
            }
        }
        rt::dally(2);
        match first_action {
            First::BlockerPark => b_slot.lock().unwrap().clone().unwrap().unpark(),
            First::SemWait => sem.post(),
            First::Recv => {
                let _ = tx.send(42);
            }
            First::CancelledPark => unsafe { sh.coroutine().cancel() },
            First::IoRead => {
                use std::io::Write;
                let mut a = io_a.unwrap();
                a.write_all(&[7, 8, 9]).expect("write to the successor");
                KEEP.lock().unwrap().push(Box::new(a));
            }
            _ => {}
        }
        let o = OPS.begin(format!("join of successor {} (first action {:?} after {:?})", succ_id, first_action, ending));
        let sr = sh.join();
        o.done();
        match sr {
            Err(e) if first_action == First::CancelledPark => {
                if !matches!(e.downcast_ref::<generator::Error>(), Some(generator::Error::Cancel)) {
                    violation(&format!(
                        "fresh coroutine {} was cancelled in its first park, but its join reports a foreign panic ({}) instead of Cancel: left behind by the stack's previous user ({:?})",
                        succ_id,
                        crate::panic_msg(&e),
                        ending
                    ));
                }
            }
            Ok(_) if first_action == First::CancelledPark => violation(&format!("successor {} was cancelled in its first park but ended normally", succ_id)),
            Ok(v) if v == succ_id => {}
            Ok(v) => violation(&format!("successor {} returned {}", succ_id, v)),
            Err(e) => violation(&format!(
                "fresh coroutine {} (after a predecessor that ended by {:?}) did not run to its end: {} - it inherited a pending cancel or error",
                succ_id,
                ending,
                crate::panic_msg(&e)
            )),
        }
    }
    rt::await_actors(&actors, engine::now() + 100_000_000);
    for a in actors.iter_mut() {
        rt::expect_end(a, false);
    }
    // whatever stacks are in the pool now (also those of coroutines the runtime spawned itself,
    // e.g. the arms of a select!): their next users start clean
    rt::fresh_coroutines_start_clean(3);
    // every value created inside a coroutine is dropped exactly once by now (all coroutines
    // ended and were recycled); thread-local fallbacks live as long as their thread
    // (join returns when the closure has ended; the runtime drops the locals right after, on
    // the worker, so give it a moment)
    let thread_vals = p.background.iter().filter(|b| b.0 == Ctx::Thread).count() * 3;
    let mut tries = 0;
    loop {
        let n = NEXT_SERIAL.load(Ordering::Relaxed);
        let live = (1..n).filter(|s| VALS[*s as usize].load(Ordering::Relaxed) == 1).count();
        if live <= thread_vals {
            break;
        }
        tries += 1;
        if tries > 20 {
            violation(&format!(
                "{} coroutine-local values are still alive 20 ms after all coroutines ended (at most {} may belong to threads): not dropped",
                live, thread_vals
            ));
        }
        engine::sleep(1_000_000);
    }
    engine::finish_ok()
}
