//! Deterministic simulation harness for `may` (see /verif/DESIGN.md)

pub mod alloc;
pub mod engine;
pub mod json;
pub mod oracle;
pub mod props;
pub mod rng;
pub mod rt;
pub mod scen;

use engine::{Cfg, Strategy};
use rng::Rng;
use std::any::Any;

pub fn panic_msg(p: &Box<dyn Any + Send>) -> String {
    if let Some(s) = p.downcast_ref::<&str>() {
        s.to_string()
    } else if let Some(s) = p.downcast_ref::<String>() {
        s.clone()
    } else if let Some(s) = p.downcast_ref::<oracle::Scripted>() {
        format!("scripted panic {}", s.0)
    } else if p.downcast_ref::<generator::Error>().is_some() {
        "generator::Error (cancel)".to_string()
    } else {
        "<non-string payload>".to_string()
    }
}

/// knobs of the swarm: which strategies and fault kinds a scenario family wants
#[derive(Clone, Debug)]
pub struct Swarm {
    /// the scenario uses real sockets: poll the epoll fds at every scheduling decision
    pub io: bool,
    /// draw an allocator fault mode (LIFO reuse / poison) for some runs
    pub alloc_modes: bool,
    pub stalls: bool,
    pub stall_max_ns: u64,
    /// files in which half of the stall-enabled runs concentrate their stalls
    pub stall_focus: &'static [&'static str],
    pub cas_weak: bool,
    pub spurious_park: bool,
    pub est_len: u64,
    pub max_steps: u64,
}

impl Default for Swarm {
    fn default() -> Self {
        Swarm {
            io: false,
            alloc_modes: false,
            stalls: false,
            stall_max_ns: 2_000_000,
            stall_focus: &[],
            cas_weak: true,
            spurious_park: false,
            est_len: 2000,
            max_steps: 400_000,
        }
    }
}

/// derive the engine configuration of a run from its seed (swarm style: each run
/// enables a random subset of fault kinds and one strategy)
pub fn swarm_cfg(seed: u64, sw: &Swarm) -> Cfg {
    let mut r = Rng::new(seed ^ 0xC0F1_6000_0000_0001);
    let mut c = Cfg::new(seed);
    c.max_steps = sw.max_steps;
    c.io_always = sw.io;
    c.strategy = match r.below(100) {
        0..=34 => Strategy::Rw,
        35..=49 => Strategy::Sticky(20),
        50..=64 => Strategy::Sticky(100),
        65..=79 => Strategy::Sticky(300),
        _ => Strategy::Pct {
            depth: r.range(1, 3) as u32,
            est_len: sw.est_len,
        },
    };
    if sw.cas_weak && r.chance(1, 2) {
        c.cas_weak_pm = *r.pick(&[10, 50, 200]);
    }
    if sw.stalls && r.chance(1, 2) {
        c.stall_budget = r.range(1, 3) as u32;
        c.stall_ppm = (c.stall_budget as u64 * 1_000_000 / sw.est_len.max(1)).min(200_000) as u32;
        c.stall_max_ns = sw.stall_max_ns;
        if !sw.stall_focus.is_empty() && r.chance(1, 2) {
            c.stall_focus = sw.stall_focus;
        }
        // a stalled thread resumes although others spin on it
        c.tick_ns = 25;
    }
    if sw.alloc_modes {
        c.alloc_mode = match r.below(10) {
            0..=3 => 1,
            4..=6 => 2,
            _ => 0,
        };
    }
    if sw.spurious_park && r.chance(1, 3) {
        c.spurious_park_pm = *r.pick(&[20, 100]);
    }
    c
}

/// the generator stream of a run: workload parameters come from here, never from
/// the scheduler's stream, so the same seed always generates the same program
pub fn gen_rng(seed: u64) -> Rng {
    Rng::new(seed ^ 0x6E4E_0000_0000_0002)
}

/// Panics are classified by payload: scripted ones and cancellation unwinds are
/// part of the scenarios, anything else (an assertion of the code under test, an
/// arithmetic overflow, a harness bug) ends the run as a violation.
pub fn install_panic_hook() {
    std::panic::set_hook(Box::new(|info| {
        let p = info.payload();
        if p.downcast_ref::<oracle::Scripted>().is_some() {
            return;
        }
        if let Some(e) = p.downcast_ref::<generator::Error>() {
            if matches!(e, generator::Error::Cancel) {
                return;
            }
        }
        let msg = if let Some(s) = p.downcast_ref::<&str>() {
            s.to_string()
        } else if let Some(s) = p.downcast_ref::<String>() {
            s.clone()
        } else {
            "<non-string payload>".to_string()
        };
        let loc = info
            .location()
            .map(|l| format!("{}:{}", l.file(), l.line()))
            .unwrap_or_default();
        if EXPECT_PANIC.load(std::sync::atomic::Ordering::Relaxed) {
            return;
        }
        if std::env::var("VERIF_BT").is_ok() {
            eprintln!("PANIC at {}: {}\n{}", loc, msg, std::backtrace::Backtrace::force_capture());
        }
        engine::fail("violation", &format!("unexpected panic at {}: {}", loc, msg));
    }));
}

/// scenarios that provoke panics of the code under test on purpose set this
pub static EXPECT_PANIC: std::sync::atomic::AtomicBool = std::sync::atomic::AtomicBool::new(false);
