//! helpers for scenarios that run the real `may` runtime under the engine

use crate::engine;
use crate::rng::Rng;
use std::sync::atomic::{AtomicBool, AtomicU32, AtomicU64, Ordering};
use std::sync::{Arc, Mutex};

#[derive(Clone, Debug)]
pub struct RtCfg {
    pub workers: usize,
    pub pool_cap: usize,
    /// in words (usize), as `Config::set_stack_size` takes it
    pub stack_size: usize,
    pub poll_ns: u64,
}

pub const STACK_DEFAULT: usize = 0x4000; // 128 KiB: room for the hooks in a debug build

impl RtCfg {
    pub fn gen(r: &mut Rng, max_workers: u64) -> RtCfg {
        RtCfg {
            workers: r.range(1, max_workers) as usize,
            pool_cap: *r.pick(&[1, 2, 8]),
            stack_size: *r.pick(&[STACK_DEFAULT, STACK_DEFAULT, STACK_DEFAULT * 2]),
            poll_ns: *r.pick(&[1_000_000, 10_000_000, 10_000_000, 1_000_000_000]),
        }
    }
}

/// configure and start the runtime (scheduler `Once`, pool, timer thread, workers) on
/// the main thread, inside the deterministic schedule and before any actor exists
pub fn boot(c: &RtCfg) {
    let cfg = may::config();
    cfg.set_workers(c.workers);
    cfg.set_pool_capacity(c.pool_cap);
    cfg.set_stack_size(c.stack_size);
    cfg.set_timeout_ns(c.poll_ns);
    cfg.set_worker_pin(false);
    // the first spawn initialises the scheduler
    let h = unsafe { may::coroutine::spawn(|| 7u32) };
    match h.join() {
        Ok(7) => {}
        _ => engine::violation("boot coroutine did not return its value"),
    }
    engine::set_thread_name(1, "timer");
    for w in 0..c.workers {
        engine::set_thread_name(2 + w, &format!("worker{}", w));
    }
}

/// context-aware yield used by harness polling loops
pub fn relax() {
    if may::coroutine::is_coroutine() {
        may::coroutine::yield_now();
    } else {
        engine::yield_point();
    }
}

/// wait (thread: in the engine, coroutine: yield loop) until the flag is set; gives up
/// after `spins` yields in coroutine context. Returns whether the flag was seen.
pub fn wait_flag(flag: &AtomicBool, spins: usize) -> bool {
    if may::coroutine::is_coroutine() {
        // a few yields, then sleep-poll: a pure yield loop would burn the step budget
        // while a stalled thread holds things up (time passes only 25 ns per step)
        let mut nap = 20_000u64;
        for k in 0..spins {
            if flag.load(Ordering::Relaxed) {
                return true;
            }
            if k < 16 {
                may::coroutine::yield_now();
            } else {
                may::coroutine::sleep(std::time::Duration::from_nanos(nap));
                nap = (nap * 2).min(1_000_000);
            }
        }
        flag.load(Ordering::Relaxed)
    } else {
        loop {
            if flag.load(Ordering::Relaxed) {
                return true;
            }
            engine::wait_key(flag as *const _ as usize, None);
        }
    }
}

pub fn set_flag(flag: &AtomicBool) {
    flag.store(true, Ordering::Relaxed);
    engine::notify(flag as *const _ as usize);
}

/// Tracks the operations that are in flight so that a hung verdict can say which
/// operation of which actor never returned.
pub struct OpTable {
    ops: Mutex<Vec<(String, u64, bool)>>,
}

pub static OPS: OpTable = OpTable {
    ops: Mutex::new(Vec::new()),
};

pub struct OpGuard(usize);

impl OpTable {
    pub fn begin(&self, what: String) -> OpGuard {
        let mut o = self.ops.lock().unwrap();
        o.push((what, engine::now(), false));
        OpGuard(o.len() - 1)
    }

    pub fn pending(&self) -> String {
        let o = self.ops.lock().unwrap();
        let v: Vec<String> = o
            .iter()
            .filter(|e| !e.2)
            .map(|e| format!("{} (since t={}ns)", e.0, e.1))
            .collect();
        let mut out = v.join("; ");
        if let Some(f) = *HUNG_NOTE.lock().unwrap() {
            let n = f();
            if !n.is_empty() {
                out.push_str(" [");
                out.push_str(&n);
                out.push(']');
            }
        }
        out
    }
}

/// scenario-specific classification appended to the list of operations in flight when a run
/// hangs (used to recognise a listed known finding precisely)
pub static HUNG_NOTE: std::sync::Mutex<Option<fn() -> String>> = std::sync::Mutex::new(None);

impl OpGuard {
    pub fn done(self) {
        OPS.ops.lock().unwrap()[self.0].2 = true;
    }
}

/// Wait on the main thread until `done` reaches `want` or virtual time `deadline`
/// passes; a timeout is the bounded-liveness violation ("hung").
pub fn await_count(done: &AtomicU32, want: u32, deadline: u64, what: &str) {
    loop {
        if done.load(Ordering::Relaxed) >= want {
            return;
        }
        let now = engine::now();
        if now >= deadline {
            engine::fail(
                "hung",
                &format!(
                    "{}: {} of {} finished by virtual time {} ns; still in flight: {}; {}",
                    what,
                    done.load(Ordering::Relaxed),
                    want,
                    now,
                    OPS.pending(),
                    engine::thread_dump()
                ),
            );
        }
        engine::wait_key(done as *const _ as usize, Some(deadline - now));
    }
}

pub fn bump(done: &AtomicU32) {
    done.fetch_add(1, Ordering::Relaxed);
    engine::notify(done as *const _ as usize);
}

/// a mailbox served by a plain simulated thread (used to issue unparks, cancels, ...)
pub struct Mailbox<T> {
    q: Mutex<Vec<T>>,
    closed: AtomicBool,
}

impl<T: Send + 'static> Mailbox<T> {
    pub fn new() -> Arc<Self> {
        Arc::new(Mailbox {
            q: Mutex::new(Vec::new()),
            closed: AtomicBool::new(false),
        })
    }

    pub fn post(&self, t: T) {
        self.q.lock().unwrap().push(t);
        engine::notify(self as *const _ as usize);
    }

    pub fn close(&self) {
        self.closed.store(true, Ordering::Relaxed);
        engine::notify(self as *const _ as usize);
    }

    /// serve requests on the calling *thread* until closed
    pub fn serve(&self, mut f: impl FnMut(T)) {
        loop {
            let batch: Vec<T> = std::mem::take(&mut *self.q.lock().unwrap());
            let empty = batch.is_empty();
            for t in batch {
                f(t);
            }
            if empty {
                if self.closed.load(Ordering::Relaxed) {
                    return;
                }
                engine::wait_key(self as *const _ as usize, None);
            }
        }
    }
}

pub static SCRATCH: AtomicU64 = AtomicU64::new(0);

// ------------------------------------------------------------------------------------------------
// actors: a script executed either by a plain simulated thread or by a coroutine
// ------------------------------------------------------------------------------------------------

#[derive(Clone, Copy, Debug, PartialEq)]
pub enum Ctx {
    Thread,
    Co,
}

impl Ctx {
    pub fn gen(r: &mut Rng) -> Ctx {
        if r.chance(1, 2) {
            Ctx::Thread
        } else {
            Ctx::Co
        }
    }
}

pub struct Actor {
    pub name: String,
    pub ctx: Ctx,
    pub done: Arc<AtomicBool>,
    pub co: Option<may::coroutine::JoinHandle<()>>,
    pub tid: Option<usize>,
}

/// number of actors that have finished (bumped when an actor's closure returns or unwinds)
pub static ACTORS_DONE: AtomicU32 = AtomicU32::new(0);

struct DoneGuard(Arc<AtomicBool>);
impl Drop for DoneGuard {
    fn drop(&mut self) {
        self.0.store(true, Ordering::Relaxed);
        bump(&ACTORS_DONE);
    }
}

pub fn spawn_actor<F: FnOnce() + Send + 'static>(ctx: Ctx, name: &str, f: F) -> Actor {
    let done = Arc::new(AtomicBool::new(false));
    let d2 = done.clone();
    match ctx {
        Ctx::Thread => {
            let tid = engine::spawn(name, move || {
                let _g = DoneGuard(d2);
                f();
            });
            Actor { name: name.to_string(), ctx, done, co: None, tid: Some(tid) }
        }
        Ctx::Co => {
            let h = unsafe {
                may::coroutine::spawn(move || {
                    let _g = DoneGuard(d2);
                    f();
                })
            };
            Actor { name: name.to_string(), ctx, done, co: Some(h), tid: None }
        }
    }
}

/// wait for all actors (bounded in virtual time); names the ones that hang
pub fn await_actors(actors: &[Actor], deadline: u64) {
    let mut deadline = deadline;
    let mut graces = 0;
    loop {
        let pending: Vec<&Actor> = actors.iter().filter(|a| !a.done.load(Ordering::Relaxed)).collect();
        if pending.is_empty() {
            return;
        }
        let now = engine::now();
        if now >= deadline {
            // real sockets: virtual time must not run ahead of a kernel that is late in real time
            if graces < 3 && engine::kernel_grace(300) {
                graces += 1;
                deadline = now + 1_000_000_000;
                continue;
            }
            let names: Vec<String> = pending.iter().map(|a| a.name.clone()).collect();
            engine::fail(
                "hung",
                &format!(
                    "actors never finished: {}; in flight: {}; {}",
                    names.join(","),
                    OPS.pending(),
                    engine::thread_dump()
                ),
            );
        }
        engine::wait_key(&ACTORS_DONE as *const _ as usize, Some(deadline - now));
    }
}

/// `n` harness yield points in the current context (thread: engine, coroutine: yield_now)
pub fn dally(n: u32) {
    for _ in 0..n {
        relax();
    }
}

/// a thread actor that issues `Coroutine::cancel()` calls at scripted moments:
/// entry = (number of controller yield points before the cancel, target, flag set before it)
pub fn spawn_canceller(mut list: Vec<(u32, may::coroutine::Coroutine, Arc<AtomicBool>)>) -> Actor {
    spawn_actor(Ctx::Thread, "ctl", move || {
        list.sort_by_key(|c| c.0);
        let mut k = 0;
        for (at, co, flag) in list {
            while k < at {
                engine::yield_point();
                k += 1;
            }
            flag.store(true, Ordering::Relaxed);
            unsafe { co.cancel() };
            // a quarter of the targets are cancelled a second time a little later (while they
            // unwind, clean up, wait with their cancel disabled, or are gone): a cancel must be
            // harmless at any moment, and for a waiter whose cancel is disabled it is a spurious
            // wake-up that the wait has to absorb
            if at % 4 == 3 {
                for _ in 0..(at % 17) {
                    engine::yield_point();
                    k += 1;
                }
                unsafe { co.cancel() };
            }
        }
    })
}

/// join a coroutine actor and insist on: normal end, or Cancel if it was a cancel target
pub fn expect_end(a: &mut Actor, cancel_target: bool) {
    if let Some(h) = a.co.take() {
        match h.join() {
            Ok(()) => {}
            Err(e) => {
                let is_cancel = matches!(e.downcast_ref::<generator::Error>(), Some(generator::Error::Cancel));
                if !(is_cancel && cancel_target) {
                    engine::violation(&format!(
                        "{} ended with an unexpected panic: {}",
                        a.name,
                        crate::panic_msg(&e)
                    ));
                }
            }
        }
    }
}

/// context-aware virtual sleep
pub fn nap(ns: u64) {
    if may::coroutine::is_coroutine() {
        may::coroutine::sleep(std::time::Duration::from_nanos(ns));
    } else {
        engine::sleep(ns);
    }
}

/// Spawn `n` fresh coroutines (they take over the pooled stacks / generators of coroutines that
/// ended earlier in the run) whose first action is a socket read that has to wait for its data.
/// Socket calls look at the coroutine's resume parameter unconditionally, so a result left behind
/// by a previous user of the generator (a stale "Canceled" or "timeout") shows up as an error of a
/// coroutine that was never cancelled and has no timeout. Switches the engine to polling the
/// epoll fds from here on.
pub fn fresh_coroutines_start_clean(n: u8) {
    use std::io::{Read, Write};
    engine::set_io_always(true);
    let mut succ = Vec::new();
    for k in 0..n {
        let (a, mut b) = may::os::unix::net::UnixStream::pair().expect("pair");
        let ready = Arc::new(AtomicBool::new(false));
        let r2 = ready.clone();
        let h = unsafe {
            may::coroutine::spawn(move || {
                let mut buf = [0u8; 4];
                set_flag(&r2);
                match b.read(&mut buf) {
                    Ok(1) if buf[0] == k => {}
                    r => engine::violation(&format!(
                        "a fresh coroutine that was never cancelled and has no timeout: its first socket read returned {:?} instead of the byte sent to it (left-over of an earlier coroutine on the same pooled stack)",
                        r
                    )),
                }
            })
        };
        succ.push((a, h, ready, k));
    }
    for (mut a, h, ready, k) in succ {
        wait_flag(&ready, usize::MAX);
        dally(2);
        a.write_all(&[k]).expect("write");
        let o = OPS.begin(format!("join of fresh coroutine {}", k));
        let r = h.join();
        o.done();
        if let Err(e) = r {
            engine::violation(&format!("a fresh, never cancelled coroutine ended by a panic: {}", crate::panic_msg(&e)));
        }
    }
}
