//! The baton scheduler: real OS threads, exactly one runs at a time, the engine
//! decides at every schedule point who goes next. Virtual clock, fault injection,
//! trace hash, replay.

use crate::rng::Rng;
use may_queue::verif::{Hooks, Loc, Op};
use std::cell::Cell;
use std::collections::{HashMap, HashSet};
use std::fmt::Write as _;
use std::sync::atomic::{AtomicU32, AtomicU64, Ordering};
use std::sync::{Mutex, MutexGuard};

pub const NO_DEADLINE: u64 = u64::MAX;

// ------------------------------------------------------------------------------------------------
// gates: one futex word per thread
// ------------------------------------------------------------------------------------------------

pub struct Gate {
    v: AtomicU32,
}

impl Gate {
    fn new() -> &'static Gate {
        Box::leak(Box::new(Gate {
            v: AtomicU32::new(0),
        }))
    }

    fn open(&self) {
        self.v.store(1, Ordering::Release);
        unsafe {
            libc::syscall(
                libc::SYS_futex,
                &self.v as *const AtomicU32,
                libc::FUTEX_WAKE | libc::FUTEX_PRIVATE_FLAG,
                1,
            );
        }
    }

    fn wait(&self) {
        loop {
            if self.v.swap(0, Ordering::Acquire) == 1 {
                return;
            }
            unsafe {
                libc::syscall(
                    libc::SYS_futex,
                    &self.v as *const AtomicU32,
                    libc::FUTEX_WAIT | libc::FUTEX_PRIVATE_FLAG,
                    0,
                    std::ptr::null::<libc::timespec>(),
                );
            }
        }
    }
}

// ------------------------------------------------------------------------------------------------
// configuration
// ------------------------------------------------------------------------------------------------

#[derive(Clone, Debug, PartialEq)]
pub enum Strategy {
    /// uniform random walk over the runnable threads at every point
    Rw,
    /// keep the running thread with probability 1 - p/1000
    Sticky(u32),
    /// PCT with `d` priority change points over an estimated length
    Pct { depth: u32, est_len: u64 },
    /// follow a recorded decision list
    Replay,
}

#[derive(Clone, Debug)]
pub struct Cfg {
    pub seed: u64,
    pub strategy: Strategy,
    pub max_steps: u64,
    /// virtual time after which the run is declared hung
    pub vt_limit: u64,
    /// probability (per million points) of a stall fault, and how many at most
    pub stall_ppm: u32,
    pub stall_budget: u32,
    /// upper bound of one stall in ns
    pub stall_max_ns: u64,
    /// source files (substrings of the path) in which stalls are made much more likely and long:
    /// aims the fault at windows inside particular operations
    pub stall_focus: &'static [&'static str],
    /// virtual time that passes with every schedule point (0 = infinitely fast CPU)
    pub tick_ns: u64,
    /// allocator fault mode (see alloc.rs): 0 system, 1 LIFO reuse, 2 quarantine + poison
    pub alloc_mode: u8,
    /// probability (per thousand) that a compare_exchange_weak fails spuriously
    pub cas_weak_pm: u32,
    /// probability (per thousand) that a thread park returns spuriously
    pub spurious_park_pm: u32,
    /// poll the epoll fds at every decision (io scenarios)
    pub io_always: bool,
    pub trace: bool,
    pub replay: Option<ReplayData>,
}

impl Cfg {
    pub fn new(seed: u64) -> Cfg {
        Cfg {
            seed,
            strategy: Strategy::Rw,
            max_steps: 400_000,
            vt_limit: 10_000_000_000,
            stall_ppm: 0,
            stall_budget: 0,
            stall_max_ns: 0,
            stall_focus: &[],
            tick_ns: 0,
            alloc_mode: 0,
            cas_weak_pm: 0,
            spurious_park_pm: 0,
            io_always: false,
            trace: false,
            replay: None,
        }
    }
}

#[derive(Clone, Debug, Default)]
pub struct ReplayData {
    /// step -> thread that must run next (sparse: deviations from the default policy)
    pub decisions: HashMap<u64, u32>,
    /// (step, kind) -> arg; scenario draws are keyed by (ordinal, F_HARNESS)
    pub faults: HashMap<(u64, u8), u64>,
}

pub const F_STALL: u8 = 1;
pub const F_CASWEAK: u8 = 2;
pub const F_SPURIOUS_PARK: u8 = 3;
pub const F_HARNESS: u8 = 4; // a fault decided by the scenario through `fault_draw`
pub const FAULT_NAMES: [&str; 5] = ["", "stall", "cas_weak", "spurious_park", "scenario"];

// ------------------------------------------------------------------------------------------------
// state
// ------------------------------------------------------------------------------------------------

#[derive(Clone, Copy, Debug, PartialEq)]
enum Why {
    Park,
    Sleep,
    Key(usize),
    Epoll(i32),
    Join(usize),
    Forever,
}

#[derive(Clone, Copy, Debug, PartialEq)]
enum St {
    Embryo,
    Run,
    Blocked(Why),
    Done,
}

struct Th {
    st: St,
    gate: &'static Gate,
    reg: &'static AtomicU32,
    name: String,
    token: bool,
    wake_at: u64,
    /// set when the thread was made runnable by an event (not by its deadline)
    woken: bool,
    prio: i64,
    run_len: u32,
    /// a stall the scenario asked for: (schedule points of this thread still to pass, ns)
    armed_stall: Option<(u32, u64)>,
    /// the same, aimed at a code site: (file suffix, op name, matching points still to pass, ns)
    armed_site: Option<(&'static str, &'static str, u32, u64)>,
}

struct TraceEv {
    step: u64,
    tid: u32,
    op: u8,
    line: u32,
    file: &'static str,
}

pub struct Inner {
    graces: u32,
    th: Vec<Th>,
    cur: usize,
    pub now: u64,
    pub step: u64,
    pub switches: u64,
    rng: Rng,
    cfg: Cfg,
    hash: u64,
    sw_hash: u64,
    decisions: Vec<(u64, u32)>,
    faults: Vec<(u64, u8, u64)>,
    fault_counts: [u64; 5],
    stalls_left: u32,
    io_dirty: bool,
    resident: Vec<usize>,
    probes: Vec<(&'static str, u64)>,
    ring: Vec<TraceEv>,
    ring_pos: usize,
    pairs: HashSet<u64>,
    last_site: u64,
    pct_low: i64,
    pct_changes: Vec<u64>,
    finished: bool,
    time_jumps: u64,
    kernel_async: u64,
    extra: Vec<(String, String)>,
    replay_out: Option<std::ffi::CString>,
    argv: Vec<String>,
}

const RING: usize = 4096;

pub struct Engine {
    m: Mutex<Option<Inner>>,
}

pub static ENGINE: Engine = Engine {
    m: Mutex::new(None),
};

/// wall-clock liveness of the engine itself, bumped at every step (read by the watchdog)
pub static HEARTBEAT: AtomicU64 = AtomicU64::new(0);

/// one injected stall: where (code site of the schedule point at which the thread was put to
/// sleep; the operation named there had NOT yet been executed), when and for how long
#[derive(Clone, Debug)]
pub struct StallRec {
    pub step: u64,
    pub vt: u64,
    pub dur: u64,
    pub file: &'static str,
    pub line: u32,
    pub op: &'static str,
}
/// kept outside the engine lock so that diagnostics callbacks may read it
static STALLS: std::sync::Mutex<Vec<StallRec>> = std::sync::Mutex::new(Vec::new());

pub fn stall_log() -> Vec<StallRec> {
    STALLS.lock().map(|g| g.clone()).unwrap_or_default()
}

thread_local! {
    static TID: Cell<usize> = const { Cell::new(usize::MAX) };
}

#[inline(never)]
pub fn tid() -> usize {
    TID.with(|t| t.get())
}

#[inline(never)]
fn set_tid(v: usize) {
    TID.with(|t| t.set(v))
}

type G<'a> = MutexGuard<'a, Option<Inner>>;

fn site_hash(loc: Loc) -> u64 {
    let f = loc.file().as_bytes();
    let mut h: u64 = 0xcbf2_9ce4_8422_2325 ^ (loc.line() as u64) ^ ((f.len() as u64) << 32);
    let n = f.len();
    let tail = &f[n.saturating_sub(12)..];
    for b in tail {
        h = (h ^ *b as u64).wrapping_mul(0x100_0000_01b3);
    }
    h
}

#[inline]
fn mix(h: u64, v: u64) -> u64 {
    (h ^ v).wrapping_mul(0x100_0000_01b3).rotate_left(23)
}

impl Inner {
    fn runnable(&self) -> impl Iterator<Item = usize> + '_ {
        self.th
            .iter()
            .enumerate()
            .filter(|(_, t)| t.st == St::Run)
            .map(|(i, _)| i)
    }

    fn record_fault(&mut self, kind: u8, arg: u64) {
        self.faults.push((self.step, kind, arg));
        self.fault_counts[kind as usize] += 1;
    }

    fn make_runnable(&mut self, t: usize, by_event: bool) {
        let th = &mut self.th[t];
        th.st = St::Run;
        th.wake_at = NO_DEADLINE;
        th.woken = by_event;
    }

    /// check the epoll fds of the idle event loops
    fn refresh_io(&mut self) {
        if !(self.io_dirty || self.cfg.io_always) {
            return;
        }
        self.io_dirty = false;
        for i in 0..self.th.len() {
            if let St::Blocked(Why::Epoll(fd)) = self.th[i].st {
                if fd_readable(fd) {
                    self.make_runnable(i, true);
                }
            }
        }
    }

    /// give the kernel `ms` of real time; true if an idle event loop became ready meanwhile
    fn grace_poll(&mut self, ms: i32) -> bool {
        if !self.cfg.io_always {
            return false;
        }
        let fds: Vec<(usize, i32)> = self
            .th
            .iter()
            .enumerate()
            .filter_map(|(i, t)| match t.st {
                St::Blocked(Why::Epoll(fd)) => Some((i, fd)),
                _ => None,
            })
            .collect();
        if fds.is_empty() {
            return false;
        }
        let mut pfds: Vec<libc::pollfd> = fds.iter().map(|f| libc::pollfd { fd: f.1, events: libc::POLLIN, revents: 0 }).collect();
        let r = unsafe { libc::poll(pfds.as_mut_ptr(), pfds.len() as libc::nfds_t, ms) };
        let mut any = false;
        if r > 0 {
            for (k, p) in pfds.iter().enumerate() {
                if p.revents & libc::POLLIN != 0 {
                    self.make_runnable(fds[k].0, true);
                    any = true;
                }
            }
        }
        if any {
            self.kernel_async += 1;
        }
        any
    }

    /// jump the clock to the next deadline; false if nobody has one
    fn advance_time(&mut self) -> bool {
        let mut next = NO_DEADLINE;
        for t in &self.th {
            if let St::Blocked(_) = t.st {
                next = next.min(t.wake_at);
            }
        }
        if self.cfg.io_always && (next == NO_DEADLINE || next > self.now + 50_000_000) {
            // the real kernel is the one component the engine does not own: before a long
            // idle jump (or a hung verdict) give it a moment of REAL time to deliver events it
            // produces asynchronously (timers inside the TCP stack). Counted, never an alarm
            let fds: Vec<(usize, i32)> = self
                .th
                .iter()
                .enumerate()
                .filter_map(|(i, t)| match t.st {
                    St::Blocked(Why::Epoll(fd)) => Some((i, fd)),
                    _ => None,
                })
                .collect();
            if !fds.is_empty() {
                let mut pfds: Vec<libc::pollfd> = fds.iter().map(|f| libc::pollfd { fd: f.1, events: libc::POLLIN, revents: 0 }).collect();
                let r = unsafe { libc::poll(pfds.as_mut_ptr(), pfds.len() as libc::nfds_t, 250) };
                if r > 0 {
                    let mut any = false;
                    for (k, p) in pfds.iter().enumerate() {
                        if p.revents & libc::POLLIN != 0 {
                            self.make_runnable(fds[k].0, true);
                            any = true;
                        }
                    }
                    if any {
                        self.kernel_async += 1;
                        return true;
                    }
                }
            }
        }
        if next == NO_DEADLINE {
            return false;
        }
        if next > self.now {
            self.now = next;
            self.time_jumps += 1;
        }
        for i in 0..self.th.len() {
            if let St::Blocked(_) = self.th[i].st {
                if self.th[i].wake_at <= self.now {
                    self.make_runnable(i, false);
                }
            }
        }
        true
    }

    /// choose the next thread to run among the runnable ones; `me` is the caller
    fn pick(&mut self, me: usize, yield_hint: bool) -> Option<usize> {
        let me_ok = self.th[me].st == St::Run;
        let cand: Vec<usize> = self.runnable().collect();
        if cand.is_empty() {
            return None;
        }
        let default = if me_ok { me } else { cand[0] };
        let choice = match &self.cfg.strategy {
            Strategy::Replay => {
                let r = self.cfg.replay.as_ref().unwrap();
                match r.decisions.get(&self.step) {
                    Some(&t) => {
                        let t = t as usize;
                        if !cand.contains(&t) {
                            // the recorded choice is not possible here
                            let msg = format!(
                                "replay diverged at step {}: thread {} not runnable",
                                self.step, t
                            );
                            self.finish_now("diverged", &msg);
                        }
                        t
                    }
                    None => default,
                }
            }
            Strategy::Rw => cand[self.rng.below(cand.len() as u64) as usize],
            Strategy::Sticky(p) => {
                let p = *p as u64;
                if me_ok && !yield_hint && !self.rng.chance(p, 1000) {
                    me
                } else {
                    let others: Vec<usize> = cand.iter().copied().filter(|&c| c != me).collect();
                    if others.is_empty() {
                        default
                    } else {
                        others[self.rng.below(others.len() as u64) as usize]
                    }
                }
            }
            Strategy::Pct { .. } => {
                if me_ok {
                    if yield_hint {
                        self.pct_low -= 1;
                        self.th[me].prio = self.pct_low;
                    }
                    self.th[me].run_len += 1;
                    if self.th[me].run_len > 3000 && cand.len() > 1 {
                        // a spin loop would starve everyone else under strict priorities
                        self.pct_low -= 1;
                        self.th[me].prio = self.pct_low;
                        self.th[me].run_len = 0;
                    }
                    if self.pct_changes.contains(&self.step) {
                        self.pct_low -= 1;
                        self.th[me].prio = self.pct_low;
                    }
                }
                *cand.iter().max_by_key(|&&c| self.th[c].prio).unwrap()
            }
        };
        if choice != default {
            self.decisions.push((self.step, choice as u32));
        }
        Some(choice)
    }

    fn write_result(&self, s: &mut dyn std::fmt::Write, verdict: &str, msg: &str) {
        let _ = write!(s, "{{\"verdict\":\"{}\",\"msg\":", verdict);
        write_json_str(s, msg);
        let _ = write!(
            s,
            ",\"seed\":{},\"steps\":{},\"switches\":{},\"vt_ns\":{},\"time_jumps\":{},\"hash\":\"{:016x}\",\"sched_fp\":\"{:016x}\",\"threads\":{},\"strategy\":\"",
            self.cfg.seed,
            self.step,
            self.switches,
            self.now,
            self.time_jumps,
            self.hash,
            self.sw_hash,
            self.th.len(),
        );
        match &self.cfg.strategy {
            Strategy::Rw => {
                let _ = s.write_str("rw");
            }
            Strategy::Sticky(p) => {
                let _ = write!(s, "sticky{}", p);
            }
            Strategy::Pct { depth, .. } => {
                let _ = write!(s, "pct{}", depth);
            }
            Strategy::Replay => {
                let _ = s.write_str("replay");
            }
        }
        let _ = write!(s, "\",\"pairs\":{}", self.pairs.len());
        let _ = s.write_str(",\"faults\":{");
        let mut first = true;
        for k in 1..FAULT_NAMES.len() {
            if self.fault_counts[k] > 0 {
                if !first {
                    let _ = s.write_char(',');
                }
                first = false;
                let _ = write!(s, "\"{}\":{}", FAULT_NAMES[k], self.fault_counts[k]);
            }
        }
        let _ = write!(s, "}},\"kernel_async\":{},\"alloc_mode\":{},\"alloc_reused\":{}", self.kernel_async, crate::alloc::MODE.load(Ordering::Relaxed), crate::alloc::REUSED.load(Ordering::Relaxed));
        let _ = s.write_str(",\"probes\":{");
        for (i, (n, c)) in self.probes.iter().enumerate() {
            if i > 0 {
                let _ = s.write_char(',');
            }
            write_json_str(s, n);
            let _ = write!(s, ":{}", c);
        }
        let _ = s.write_char('}');
        for (k, v) in &self.extra {
            let _ = s.write_char(',');
            write_json_str(s, k);
            let _ = write!(s, ":{}", v);
        }
        let _ = s.write_char('}');
    }

    /// write the replay file (decisions + faults + trace tail) if asked to; allocation
    /// free, it also runs from the fatal-signal handler on a corrupted heap
    fn dump_replay(&self, verdict: &str, msg: &str) {
        let path = match &self.replay_out {
            Some(p) => p,
            None => return,
        };
        let fd = unsafe { libc::open(path.as_ptr(), libc::O_WRONLY | libc::O_CREAT | libc::O_TRUNC, 0o644) };
        if fd < 0 {
            return;
        }
        let mut w = FdWriter::new(fd);
        let s: &mut dyn std::fmt::Write = &mut w;
        let _ = write!(s, "{{\"verdict\":\"{}\",\"msg\":", verdict);
        write_json_str(s, msg);
        let _ = write!(
            s,
            ",\"seed\":{},\"steps\":{},\"hash\":\"{:016x}\",\n\"argv\":[",
            self.cfg.seed, self.step, self.hash
        );
        for (i, a) in self.argv.iter().enumerate() {
            if i > 0 {
                let _ = s.write_char(',');
            }
            write_json_str(s, a);
        }
        let _ = s.write_str("],\n\"decisions\":[");
        for (i, (st, t)) in self.decisions.iter().enumerate() {
            if i > 0 {
                let _ = s.write_char(',');
            }
            let _ = write!(s, "[{},{}]", st, t);
        }
        let _ = s.write_str("],\n\"faults\":[");
        for (i, (st, k, a)) in self.faults.iter().enumerate() {
            if i > 0 {
                let _ = s.write_char(',');
            }
            let _ = write!(s, "[{},{},{}]", st, k, a);
        }
        let _ = s.write_str("],\n\"threads\":[");
        for (i, t) in self.th.iter().enumerate() {
            if i > 0 {
                let _ = s.write_char(',');
            }
            let _ = s.write_char('"');
            let _ = write!(s, "{} {:?}", t.name, t.st);
            let _ = s.write_char('"');
        }
        let _ = s.write_str("],\n\"trace_tail\":[\n");
        let n = self.ring.len();
        for k in 0..n {
            let e = &self.ring[(self.ring_pos + k) % n];
            if k > 0 {
                let _ = s.write_str(",\n");
            }
            let _ = write!(
                s,
                "\"{} t{} {} {}:{}\"",
                e.step,
                e.tid,
                op_name(e.op),
                short_file(e.file),
                e.line
            );
        }
        let _ = s.write_str("\n]}\n");
        w.flush();
        unsafe { libc::close(fd) };
    }

    /// print the result line and leave the process; never returns
    fn finish_now(&mut self, verdict: &str, msg: &str) -> ! {
        self.finished = true;
        if verdict != "ok" {
            self.dump_replay(verdict, msg);
        }
        if self.cfg.trace {
            self.dump_trace();
        }
        let mut w = FdWriter::new(1);
        {
            let s: &mut dyn std::fmt::Write = &mut w;
            let _ = s.write_str("RESULT ");
            self.write_result(s, verdict, msg);
            let _ = s.write_char('\n');
        }
        w.flush();
        unsafe { libc::_exit(0) }
    }

    fn dump_trace(&self) {
        let mut w = FdWriter::new(2);
        let n = self.ring.len();
        for k in 0..n {
            let e = &self.ring[(self.ring_pos + k) % n];
            let s: &mut dyn std::fmt::Write = &mut w;
            let _ = writeln!(
                s,
                "T {} t{}({}) {} {}:{}",
                e.step,
                e.tid,
                self.th[e.tid as usize].name,
                op_name(e.op),
                short_file(e.file),
                e.line
            );
        }
        w.flush();
    }
}

/// buffered writer straight to a file descriptor, no heap allocation
struct FdWriter {
    fd: i32,
    n: usize,
    buf: [u8; 2048],
}

impl FdWriter {
    fn new(fd: i32) -> FdWriter {
        FdWriter {
            fd,
            n: 0,
            buf: [0; 2048],
        }
    }

    fn flush(&mut self) {
        let mut off = 0;
        while off < self.n {
            let r = unsafe { libc::write(self.fd, self.buf[off..].as_ptr() as *const libc::c_void, self.n - off) };
            if r <= 0 {
                break;
            }
            off += r as usize;
        }
        self.n = 0;
    }
}

impl std::fmt::Write for FdWriter {
    fn write_str(&mut self, s: &str) -> std::fmt::Result {
        for chunk in s.as_bytes().chunks(1024) {
            if self.n + chunk.len() > self.buf.len() {
                self.flush();
            }
            self.buf[self.n..self.n + chunk.len()].copy_from_slice(chunk);
            self.n += chunk.len();
        }
        Ok(())
    }
}

fn write_json_str(o: &mut dyn std::fmt::Write, s: &str) {
    let _ = o.write_char('"');
    for c in s.chars() {
        let _ = match c {
            '"' => o.write_str("\\\""),
            '\\' => o.write_str("\\\\"),
            '\n' => o.write_str("\\n"),
            '\r' => o.write_str("\\r"),
            '\t' => o.write_str("\\t"),
            c if (c as u32) < 0x20 => write!(o, "\\u{:04x}", c as u32),
            c => o.write_char(c),
        };
    }
    let _ = o.write_char('"');
}

fn short_file(f: &str) -> &str {
    match f.rfind("/src/") {
        Some(i) => {
            let head = &f[..i];
            match head.rfind('/') {
                Some(j) => &f[j + 1..],
                None => f,
            }
        }
        None => f,
    }
}

fn op_name(op: u8) -> &'static str {
    const N: [&str; 25] = [
        "load", "store", "swap", "cas", "casw", "rmw", "fence", "opt.store", "opt.take",
        "opt.clear", "q.push", "q.pop", "lock", "unlock", "misc", "after", "?", "?", "?", "?",
        "park", "unpark", "sleep", "yield", "harness",
    ];
    N.get(op as usize).copied().unwrap_or("?")
}

pub const OP_PARK: u8 = 20;
pub const OP_UNPARK: u8 = 21;
pub const OP_SLEEP: u8 = 22;
pub const OP_YIELD: u8 = 23;
pub const OP_HARNESS: u8 = 24;

fn strategy_name(s: &Strategy) -> String {
    match s {
        Strategy::Rw => "rw".into(),
        Strategy::Sticky(p) => format!("sticky{}", p),
        Strategy::Pct { depth, .. } => format!("pct{}", depth),
        Strategy::Replay => "replay".into(),
    }
}

pub fn json_str(s: &str) -> String {
    let mut o = String::with_capacity(s.len() + 2);
    o.push('"');
    for c in s.chars() {
        match c {
            '"' => o.push_str("\\\""),
            '\\' => o.push_str("\\\\"),
            '\n' => o.push_str("\\n"),
            '\r' => o.push_str("\\r"),
            '\t' => o.push_str("\\t"),
            c if (c as u32) < 0x20 => {
                let _ = write!(o, "\\u{:04x}", c as u32);
            }
            c => o.push(c),
        }
    }
    o.push('"');
    o
}

fn fd_readable(fd: i32) -> bool {
    let mut p = libc::pollfd {
        fd,
        events: libc::POLLIN,
        revents: 0,
    };
    let r = unsafe { libc::poll(&mut p, 1, 0) };
    r > 0 && (p.revents & libc::POLLIN) != 0
}

// ------------------------------------------------------------------------------------------------
// engine operations
// ------------------------------------------------------------------------------------------------

impl Engine {
    fn lock(&self) -> G<'_> {
        match self.m.lock() {
            Ok(g) => g,
            Err(p) => p.into_inner(),
        }
    }

    /// hand the baton to whoever the strategy selects; returns when `me` runs again
    fn reschedule(&self, mut g: G<'_>, me: usize, yield_hint: bool) {
        loop {
            let inner = g.as_mut().unwrap();
            inner.refresh_io();
            match inner.pick(me, yield_hint) {
                Some(n) if n == me => return,
                Some(n) => {
                    inner.cur = n;
                    inner.switches += 1;
                    inner.th[n].run_len = 0;
                    inner.sw_hash = mix(inner.sw_hash, (n as u64) << 48 ^ inner.last_site);
                    let prev = inner.last_site;
                    let theirs = inner.th[n].gate;
                    let mine = inner.th[me].gate;
                    // remember the site we switched away from, the pair is completed
                    // by the first point of the next thread
                    inner.last_site = prev ^ 0x8000_0000_0000_0000;
                    drop(g);
                    theirs.open();
                    mine.wait();
                    return;
                }
                None => {
                    if !inner.advance_time() {
                        let msg = format!("deadlock: every thread is blocked with no deadline; {}", inner.thread_dump());
                        inner.finish_now("hung", &msg);
                    }
                    if inner.now > inner.cfg.vt_limit && inner.graces < 3 && inner.grace_poll(300) {
                        inner.graces += 1;
                        inner.cfg.vt_limit = inner.now + 1_000_000_000;
                    }
                    if inner.now > inner.cfg.vt_limit {
                        let msg = format!(
                            "no completion within {} ns of virtual time; {}; {}",
                            inner.cfg.vt_limit,
                            diag(),
                            inner.thread_dump()
                        );
                        inner.finish_now("hung", &msg);
                    }
                }
            }
        }
    }

    /// common prologue of every schedule point
    fn step(&self, g: &mut G<'_>, me: usize, op: u8, loc: Loc) {
        let inner = g.as_mut().unwrap();
        debug_assert_eq!(inner.cur, me, "thread {} runs without the baton", me);
        inner.step += 1;
        HEARTBEAT.fetch_add(1, Ordering::Relaxed);
        if inner.cfg.tick_ns > 0 {
            // time passes while threads run: a thread spinning on a stalled or
            // sleeping one must not freeze the clock
            inner.now += inner.cfg.tick_ns;
            let now = inner.now;
            for i in 0..inner.th.len() {
                if let St::Blocked(_) = inner.th[i].st {
                    if inner.th[i].wake_at <= now {
                        inner.make_runnable(i, false);
                    }
                }
            }
        }
        let sh = site_hash(loc);
        inner.hash = mix(inner.hash, sh ^ ((me as u64) << 56) ^ ((op as u64) << 48));
        if inner.last_site & 0x8000_0000_0000_0000 != 0 {
            // first point after a context switch: record the adjacency
            let a = inner.last_site & 0x7fff_ffff_ffff_ffff;
            inner.pairs.insert(mix(a, sh));
        }
        inner.last_site = sh & 0x7fff_ffff_ffff_ffff;
        let ev = TraceEv {
            step: inner.step,
            tid: me as u32,
            op,
            line: loc.line(),
            file: loc.file(),
        };
        if inner.ring.len() < RING {
            inner.ring.push(ev);
        } else {
            let p = inner.ring_pos;
            inner.ring[p] = ev;
            inner.ring_pos = (p + 1) % RING;
        }
        if inner.step > inner.cfg.max_steps {
            let msg = format!("step budget {} exhausted; {}; {}", inner.cfg.max_steps, diag(), inner.thread_dump());
            inner.finish_now("livelock", &msg);
        }
    }

    /// maybe stall the caller (virtual sleep injected by the fault plan)
    fn maybe_stall(&self, g: &mut G<'_>, me: usize, op: u8, loc: Loc) -> bool {
        let inner = g.as_mut().unwrap();
        let d = if inner.cfg.strategy == Strategy::Replay {
            match inner.cfg.replay.as_ref().unwrap().faults.get(&(inner.step, F_STALL)) {
                Some(&d) => d,
                None => return false,
            }
        } else {
            // a stall placed by the scenario at the n-th next point of this thread at a given site
            if let Some((file, opn, left, d)) = inner.th[me].armed_site {
                if loc.file().ends_with(file) && op_name(op) == opn {
                    if left == 0 {
                        inner.th[me].armed_site = None;
                        inner.record_fault(F_STALL, d);
                        if let Ok(mut l) = STALLS.lock() {
                            l.push(StallRec { step: inner.step, vt: inner.now, dur: d, file: loc.file(), line: loc.line(), op: op_name(op) });
                        }
                        let th = &mut inner.th[me];
                        th.st = St::Blocked(Why::Sleep);
                        th.wake_at = inner.now + d;
                        return true;
                    }
                    inner.th[me].armed_site = Some((file, opn, left - 1, d));
                }
            }
            // a stall placed by the scenario at the n-th next schedule point of this thread
            if let Some((left, d)) = inner.th[me].armed_stall {
                if op != Op::After as u8 {
                    if left == 0 {
                        inner.th[me].armed_stall = None;
                        inner.record_fault(F_STALL, d);
                        if let Ok(mut l) = STALLS.lock() {
                            l.push(StallRec { step: inner.step, vt: inner.now, dur: d, file: loc.file(), line: loc.line(), op: op_name(op) });
                        }
                        let th = &mut inner.th[me];
                        th.st = St::Blocked(Why::Sleep);
                        th.wake_at = inner.now + d;
                        return true;
                    }
                    inner.th[me].armed_stall = Some((left - 1, d));
                }
            }
            if inner.stalls_left == 0 || inner.cfg.stall_ppm == 0 {
                return false;
            }
            let focus = !inner.cfg.stall_focus.is_empty() && inner.cfg.stall_focus.iter().any(|f| loc.file().contains(f));
            let ppm = if focus { (inner.cfg.stall_ppm as u64 * 40).min(100_000) } else { inner.cfg.stall_ppm as u64 };
            if !inner.rng.chance(ppm, 1_000_000) {
                return false;
            }
            inner.stalls_left -= 1;
            let max = inner.cfg.stall_max_ns.max(1000);
            if focus && inner.rng.chance(1, 2) {
                // a long one
                let d = inner.rng.range(max / 3, max);
                inner.record_fault(F_STALL, d);
                if let Ok(mut l) = STALLS.lock() {
                    l.push(StallRec { step: inner.step, vt: inner.now, dur: d, file: loc.file(), line: loc.line(), op: op_name(op) });
                }
                let th = &mut inner.th[me];
                th.st = St::Blocked(Why::Sleep);
                th.wake_at = inner.now + d;
                return true;
            }
            // log-uniform between 1us and stall_max
            let bits = 64 - (max / 1000).leading_zeros() as u64;
            let e = inner.rng.below(bits + 1);
            let lo = 1000u64 << e.saturating_sub(1).min(40);
            let hi = (1000u64 << e.min(40)).min(max).max(lo);
            inner.rng.range(lo.min(hi), hi)
        };
        inner.record_fault(F_STALL, d);
        if let Ok(mut l) = STALLS.lock() {
            l.push(StallRec { step: inner.step, vt: inner.now, dur: d, file: loc.file(), line: loc.line(), op: op_name(op) });
        }
        let th = &mut inner.th[me];
        th.st = St::Blocked(Why::Sleep);
        th.wake_at = inner.now + d;
        true
    }

    pub fn point_at(&self, op: u8, loc: Loc, yield_hint: bool) {
        let me = tid();
        if me == usize::MAX {
            return;
        }
        let mut g = self.lock();
        if g.is_none() || g.as_ref().unwrap().finished {
            return;
        }
        self.step(&mut g, me, op, loc);
        self.maybe_stall(&mut g, me, op, loc);
        self.reschedule(g, me, yield_hint);
    }

    /// block the caller; returns true if woken by an event, false if its deadline passed
    fn block(&self, why: Why, timeout_ns: Option<u64>, op: u8, loc: Loc) -> bool {
        let me = tid();
        debug_assert!(me != usize::MAX);
        let mut g = self.lock();
        self.step(&mut g, me, op, loc);
        let inner = g.as_mut().unwrap();
        let now = inner.now;
        let th = &mut inner.th[me];
        th.st = St::Blocked(why);
        th.woken = false;
        th.wake_at = match timeout_ns {
            None => NO_DEADLINE,
            Some(t) => now.saturating_add(t),
        };
        self.reschedule(g, me, false);
        let g = self.lock();
        g.as_ref().unwrap().th[me].woken
    }
}

impl Inner {
    fn thread_dump(&self) -> String {
        let mut s = String::from("threads:");
        for (i, t) in self.th.iter().enumerate() {
            let _ = write!(s, " [{} {} {:?}", i, t.name, t.st);
            if t.wake_at != NO_DEADLINE {
                let _ = write!(s, " until {}", t.wake_at);
            }
            s.push(']');
        }
        s
    }
}

#[track_caller]
fn here() -> Loc {
    std::panic::Location::caller()
}

impl Hooks for Engine {
    fn point(&self, op: Op, _addr: usize, loc: Loc) {
        self.point_at(op as u8, loc, false);
    }

    fn cas_weak_fail(&self, _loc: Loc) -> bool {
        let me = tid();
        if me == usize::MAX {
            return false;
        }
        let mut g = self.lock();
        let inner = match g.as_mut() {
            Some(i) => i,
            None => return false,
        };
        if inner.cfg.strategy == Strategy::Replay {
            let hit = inner.cfg.replay.as_ref().unwrap().faults.contains_key(&(inner.step, F_CASWEAK));
            if hit {
                inner.record_fault(F_CASWEAK, 0);
            }
            return hit;
        }
        if inner.cfg.cas_weak_pm == 0 {
            return false;
        }
        if inner.rng.chance(inner.cfg.cas_weak_pm as u64, 1000) {
            inner.record_fault(F_CASWEAK, 0);
            true
        } else {
            false
        }
    }

    fn spawn_prepare(&self) -> usize {
        let mut g = self.lock();
        let inner = g.as_mut().unwrap();
        let id = inner.th.len();
        let prio = inner.rng.below(1 << 30) as i64 + (1 << 20);
        inner.th.push(Th {
            st: St::Embryo,
            gate: Gate::new(),
            reg: Box::leak(Box::new(AtomicU32::new(0))),
            name: format!("t{}", id),
            token: false,
            wake_at: NO_DEADLINE,
            woken: false,
            prio,
            run_len: 0,
            armed_stall: None,
            armed_site: None,
        });
        id
    }

    fn spawn_child_begin(&self, tok: usize) {
        set_tid(tok);
        let (gate, reg) = {
            let mut g = self.lock();
            let inner = g.as_mut().unwrap();
            inner.th[tok].st = St::Run;
            (inner.th[tok].gate, inner.th[tok].reg)
        };
        reg.store(1, Ordering::Release);
        unsafe {
            libc::syscall(
                libc::SYS_futex,
                reg as *const AtomicU32,
                libc::FUTEX_WAKE | libc::FUTEX_PRIVATE_FLAG,
                1,
            );
        }
        gate.wait();
    }

    fn spawn_child_end(&self, tok: usize) {
        let mut g = self.lock();
        self.step(&mut g, tok, OP_HARNESS, here());
        let inner = g.as_mut().unwrap();
        inner.th[tok].st = St::Done;
        for i in 0..inner.th.len() {
            if inner.th[i].st == St::Blocked(Why::Join(tok)) {
                inner.make_runnable(i, true);
            }
        }
        self.reschedule(g, tok, false);
        unreachable!("a finished thread was scheduled");
    }

    fn spawn_parent_wait(&self, tok: usize) {
        let reg = {
            let g = self.lock();
            g.as_ref().unwrap().th[tok].reg
        };
        while reg.load(Ordering::Acquire) == 0 {
            unsafe {
                libc::syscall(
                    libc::SYS_futex,
                    reg as *const AtomicU32,
                    libc::FUTEX_WAIT | libc::FUTEX_PRIVATE_FLAG,
                    0,
                    std::ptr::null::<libc::timespec>(),
                );
            }
        }
        // the child is now parked at its gate (or about to): it does not touch
        // anything shared before it is given the baton
    }

    fn current(&self) -> usize {
        tid()
    }

    fn park(&self, timeout_ns: Option<u64>) {
        let me = tid();
        {
            let mut g = self.lock();
            let inner = g.as_mut().unwrap();
            if inner.th[me].token {
                inner.th[me].token = false;
                drop(g);
                self.point_at(OP_PARK, here(), false);
                return;
            }
            // spurious return, allowed by std::thread::park
            let spurious = if inner.cfg.strategy == Strategy::Replay {
                inner.cfg.replay.as_ref().unwrap().faults.contains_key(&(inner.step + 1, F_SPURIOUS_PARK))
            } else {
                inner.cfg.spurious_park_pm > 0
                    && inner.rng.chance(inner.cfg.spurious_park_pm as u64, 1000)
            };
            if spurious {
                // recorded at the step the point below will get
                inner.faults.push((inner.step + 1, F_SPURIOUS_PARK, 0));
                inner.fault_counts[F_SPURIOUS_PARK as usize] += 1;
                drop(g);
                self.point_at(OP_PARK, here(), true);
                return;
            }
        }
        if timeout_ns == Some(0) {
            self.point_at(OP_PARK, here(), true);
            return;
        }
        self.block(Why::Park, timeout_ns, OP_PARK, here());
        let mut g = self.lock();
        g.as_mut().unwrap().th[me].token = false;
    }

    fn unpark(&self, tok: usize) {
        self.point_at(OP_UNPARK, here(), false);
        let mut g = self.lock();
        let inner = g.as_mut().unwrap();
        if tok >= inner.th.len() {
            return;
        }
        if inner.th[tok].st == St::Blocked(Why::Park) {
            inner.make_runnable(tok, true);
            // the token is consumed by the wake-up
        } else {
            inner.th[tok].token = true;
        }
    }

    fn sleep(&self, ns: u64) {
        if ns == 0 {
            self.point_at(OP_YIELD, here(), true);
            return;
        }
        self.block(Why::Sleep, Some(ns), OP_SLEEP, here());
    }

    fn yield_now(&self) {
        self.point_at(OP_YIELD, here(), true);
    }

    fn now_ns(&self) -> u64 {
        let g = self.lock();
        g.as_ref().map(|i| i.now).unwrap_or(0)
    }

    fn block_on(&self, key: usize, timeout_ns: Option<u64>) -> bool {
        self.block(Why::Key(key), timeout_ns, Op::LockTry as u8, here())
    }

    fn wake(&self, key: usize, all: bool) {
        if tid() == usize::MAX {
            return;
        }
        let mut g = self.lock();
        let inner = g.as_mut().unwrap();
        for i in 0..inner.th.len() {
            if inner.th[i].st == St::Blocked(Why::Key(key)) {
                inner.make_runnable(i, true);
                if !all {
                    break;
                }
            }
        }
    }

    fn epoll_block(&self, epfd: i32, timeout_ms: isize) {
        if timeout_ms == 0 || fd_readable(epfd) {
            self.point_at(OP_YIELD, here(), true);
            return;
        }
        let t = if timeout_ms < 0 {
            None
        } else {
            Some(timeout_ms as u64 * 1_000_000)
        };
        self.block(Why::Epoll(epfd), t, OP_SLEEP, here());
    }

    fn io_event(&self) {
        if tid() == usize::MAX {
            return;
        }
        let mut g = self.lock();
        if let Some(inner) = g.as_mut() {
            inner.io_dirty = true;
        }
    }

    fn co_enter(&self, key: usize) {
        if tid() == usize::MAX {
            return;
        }
        let mut g = self.lock();
        let inner = g.as_mut().unwrap();
        if inner.resident.contains(&key) {
            let msg = format!(
                "coroutine {:#x} resumed on thread {} while it is still running on another OS thread",
                key,
                tid()
            );
            inner.finish_now("violation", &msg);
        }
        inner.resident.push(key);
    }

    fn co_leave(&self, key: usize) {
        if tid() == usize::MAX {
            return;
        }
        let mut g = self.lock();
        let inner = g.as_mut().unwrap();
        if let Some(p) = inner.resident.iter().position(|&k| k == key) {
            inner.resident.swap_remove(p);
        }
    }

    fn probe(&self, name: &'static str) {
        if tid() == usize::MAX {
            return;
        }
        let mut g = self.lock();
        if let Some(inner) = g.as_mut() {
            inner.bump_probe(name);
        }
    }
}

impl Inner {
    fn bump_probe(&mut self, name: &'static str) {
        for p in self.probes.iter_mut() {
            if p.0 == name {
                p.1 += 1;
                return;
            }
        }
        self.probes.push((name, 1));
    }
}

// ------------------------------------------------------------------------------------------------
// public API for the harness
// ------------------------------------------------------------------------------------------------

/// start the engine: the calling thread becomes simulated thread 0 and owns the baton
pub fn init(cfg: Cfg) {
    let cfg_alloc_mode = cfg.alloc_mode;
    let mut rng = Rng::new(cfg.seed ^ 0x5ced_u64.wrapping_mul(0x9E37_79B9_7F4A_7C15));
    let mut pct_changes = Vec::new();
    if let Strategy::Pct { depth, est_len } = cfg.strategy {
        for _ in 1..depth.max(1) {
            pct_changes.push(rng.below(est_len.max(1)));
        }
    }
    let main = Th {
        st: St::Run,
        gate: Gate::new(),
        reg: Box::leak(Box::new(AtomicU32::new(1))),
        name: "main".into(),
        token: false,
        wake_at: NO_DEADLINE,
        woken: false,
        prio: rng.below(1 << 30) as i64 + (1 << 20),
        run_len: 0,
            armed_stall: None,
            armed_site: None,
    };
    let inner = Inner {
        graces: 0,
        th: vec![main],
        cur: 0,
        now: 0,
        step: 0,
        switches: 0,
        stalls_left: cfg.stall_budget,
        rng,
        cfg,
        hash: 0x1234_5678_9abc_def0,
        sw_hash: 0x0fed_cba9_8765_4321,
        decisions: Vec::new(),
        faults: Vec::new(),
        fault_counts: [0; 5],
        io_dirty: false,
        resident: Vec::new(),
        probes: Vec::new(),
        ring: Vec::with_capacity(RING),
        ring_pos: 0,
        pairs: HashSet::new(),
        last_site: 0,
        pct_low: 0,
        pct_changes,
        finished: false,
        time_jumps: 0,
        kernel_async: 0,
        extra: Vec::new(),
        replay_out: std::env::var("VERIF_REPLAY_OUT").ok().filter(|p| !p.is_empty()).and_then(|p| std::ffi::CString::new(p).ok()),
        argv: std::env::args().skip(1).collect(),
    };
    crate::alloc::MODE.store(cfg_alloc_mode, Ordering::Relaxed);
    set_tid(0);
    {
        let mut g = ENGINE.lock();
        *g = Some(inner);
        INNER_PTR.store(&mut *g as *mut Option<Inner>, Ordering::Relaxed);
    }
    may_queue::verif::install(&ENGINE);
    install_signal_handlers();
    start_watchdog();
}

extern "C" fn on_fatal_signal(sig: libc::c_int) {
    // memory corruption or an abort of the code under test: report the run as a
    // crash together with the schedule that led to it
    // whatever state the allocator is in (the fault may have happened inside it)
    crate::alloc::emergency();
    let name = match sig {
        libc::SIGSEGV => "SIGSEGV",
        libc::SIGABRT => "SIGABRT",
        libc::SIGBUS => "SIGBUS",
        libc::SIGILL => "SIGILL",
        _ => "signal",
    };
    // the lock may be held by this very thread (an allocation inside the engine found
    // the corrupted heap): only one thread runs at a time, so go through the raw pointer
    let p = INNER_PTR.load(Ordering::Relaxed);
    if !p.is_null() {
        if let Some(i) = unsafe { (*p).as_mut() } {
            if !i.finished {
                let msg = format!("process received {} (memory corruption / abort in the code under test)", name);
                i.finish_now("crash", &msg);
            }
        }
    }
    unsafe { libc::_exit(70) }
}

static INNER_PTR: std::sync::atomic::AtomicPtr<Option<Inner>> = std::sync::atomic::AtomicPtr::new(std::ptr::null_mut());

fn install_signal_handlers() {
    unsafe {
        // alternate stack: the fault may be a stack overflow of a coroutine
        let sz = 1 << 16;
        let stack = libc::mmap(
            std::ptr::null_mut(),
            sz,
            libc::PROT_READ | libc::PROT_WRITE,
            libc::MAP_PRIVATE | libc::MAP_ANONYMOUS,
            -1,
            0,
        );
        let ss = libc::stack_t {
            ss_sp: stack,
            ss_flags: 0,
            ss_size: sz,
        };
        libc::sigaltstack(&ss, std::ptr::null_mut());
        for sig in [libc::SIGSEGV, libc::SIGABRT, libc::SIGBUS, libc::SIGILL] {
            let mut sa: libc::sigaction = std::mem::zeroed();
            sa.sa_sigaction = on_fatal_signal as usize;
            sa.sa_flags = libc::SA_ONSTACK | libc::SA_NODEFER;
            libc::sigaction(sig, &sa, std::ptr::null_mut());
        }
    }
}

fn start_watchdog() {
    // a real, non-simulated thread: if no step happens for a long time of real time
    // the baton holder is stuck in something the engine does not control
    std::thread::spawn(|| {
        let limit: u64 = std::env::var("VERIF_STUCK_SECS")
            .ok()
            .and_then(|v| v.parse().ok())
            .unwrap_or(60);
        let mut last = HEARTBEAT.load(Ordering::Relaxed);
        let mut idle = 0;
        loop {
            std::thread::sleep(std::time::Duration::from_secs(1));
            let cur = HEARTBEAT.load(Ordering::Relaxed);
            if cur == last {
                idle += 1;
                if idle >= limit {
                    // the process may be wedged inside the allocator: no allocation from here on
                    crate::alloc::emergency();
                    let mut w = FdWriter::new(1);
                    use std::fmt::Write;
                    let _ = write!(w, "RESULT {{\"verdict\":\"stuck\",\"msg\":\"no schedule point for {} s of real time\",\"steps\":{}}}\n", limit, cur);
                    w.flush();
                    unsafe { libc::_exit(0) }
                }
            } else {
                idle = 0;
                last = cur;
            }
        }
    });
}

/// spawn a simulated OS thread (a harness actor)
pub fn spawn<F: FnOnce() + Send + 'static>(name: &str, f: F) -> usize {
    let tok = ENGINE.spawn_prepare();
    {
        let mut g = ENGINE.lock();
        g.as_mut().unwrap().th[tok].name = name.to_string();
    }
    std::thread::spawn(move || {
        ENGINE.spawn_child_begin(tok);
        let r = std::panic::catch_unwind(std::panic::AssertUnwindSafe(f));
        if let Err(p) = r {
            let msg = crate::panic_msg(&p);
            fail("panic", &format!("actor thread {} panicked: {}", tok, msg));
        }
        ENGINE.spawn_child_end(tok);
    });
    ENGINE.spawn_parent_wait(tok);
    tok
}

/// name the calling thread / another thread in dumps
pub fn set_thread_name(tok: usize, name: &str) {
    let mut g = ENGINE.lock();
    if let Some(i) = g.as_mut() {
        if tok < i.th.len() {
            i.th[tok].name = name.to_string();
        }
    }
}

/// wait until a simulated thread has finished
#[track_caller]
pub fn join(tok: usize) {
    loop {
        {
            let g = ENGINE.lock();
            if g.as_ref().unwrap().th[tok].st == St::Done {
                return;
            }
        }
        ENGINE.block(Why::Join(tok), None, OP_HARNESS, here());
    }
}

/// like `join` but gives up at the virtual deadline; true if the thread finished
#[track_caller]
pub fn join_until(tok: usize, deadline: u64) -> bool {
    loop {
        let now = {
            let g = ENGINE.lock();
            let i = g.as_ref().unwrap();
            if i.th[tok].st == St::Done {
                return true;
            }
            i.now
        };
        if now >= deadline {
            return false;
        }
        ENGINE.block(Why::Join(tok), Some(deadline - now), OP_HARNESS, here());
    }
}

/// an explicit schedule point of the harness
#[track_caller]
pub fn point() {
    ENGINE.point_at(OP_HARNESS, here(), false);
}

/// a schedule point that asks to run somebody else if possible
#[track_caller]
pub fn yield_point() {
    ENGINE.point_at(OP_YIELD, here(), true);
}

pub fn now() -> u64 {
    ENGINE.now_ns()
}

pub fn step() -> u64 {
    let g = ENGINE.lock();
    g.as_ref().map(|i| i.step).unwrap_or(0)
}

/// virtual sleep of the calling *thread*
#[track_caller]
pub fn sleep(ns: u64) {
    ENGINE.sleep(ns)
}

/// block the calling thread on a harness key until `notify(key)`; false on timeout
#[track_caller]
pub fn wait_key(key: usize, timeout_ns: Option<u64>) -> bool {
    ENGINE.block(Why::Key(key), timeout_ns, OP_HARNESS, here())
}

pub fn notify(key: usize) {
    ENGINE.wake(key, true)
}

/// park the calling thread for good (after its work is done)
pub fn park_forever() -> ! {
    loop {
        ENGINE.block(Why::Forever, None, OP_HARNESS, here());
    }
}

pub fn probe(name: &'static str) {
    ENGINE.probe(name)
}

/// a random draw that belongs to the *fault plan* of the run (recorded for replay)
pub fn fault_draw(n: u64) -> u64 {
    let mut g = ENGINE.lock();
    let inner = g.as_mut().unwrap();
    if inner.cfg.strategy == Strategy::Replay {
        // replayed in order of occurrence
        let k = inner.fault_counts[F_HARNESS as usize];
        let v = inner
            .cfg
            .replay
            .as_ref()
            .unwrap()
            .faults
            .get(&(k, F_HARNESS))
            .copied()
            .unwrap_or(0);
        inner.fault_counts[F_HARNESS as usize] += 1;
        inner.faults.push((k, F_HARNESS, v));
        return v.min(n.saturating_sub(1));
    }
    let v = inner.rng.below(n.max(1));
    let k = inner.fault_counts[F_HARNESS as usize];
    inner.fault_counts[F_HARNESS as usize] += 1;
    inner.faults.push((k, F_HARNESS, v));
    v
}

/// attach a key/value (already JSON encoded) to the result line
pub fn set_extra(key: &str, json_value: String) {
    let mut g = ENGINE.lock();
    if let Some(i) = g.as_mut() {
        if let Some(e) = i.extra.iter_mut().find(|e| e.0 == key) {
            e.1 = json_value;
        } else {
            i.extra.push((key.to_string(), json_value));
        }
    }
}

/// report a violation (or another verdict class) and end the run
pub fn fail(verdict: &str, msg: &str) -> ! {
    let mut g = ENGINE.lock();
    match g.as_mut() {
        Some(i) => i.finish_now(verdict, msg),
        None => {
            println!(
                "RESULT {{\"verdict\":\"{}\",\"msg\":{}}}",
                verdict,
                json_str(msg)
            );
            unsafe { libc::_exit(0) }
        }
    }
}

pub fn violation(msg: &str) -> ! {
    fail("violation", msg)
}

/// the scenario completed and all its checks passed
pub fn finish_ok() -> ! {
    // allocator in quarantine mode: freed blocks keep their poison unless somebody wrote to them
    if let Some((_addr, size)) = crate::alloc::verify_quarantine() {
        fail(
            "violation",
            &format!("freed memory was written to: a freed block of the {}-byte size class was modified while it sat in the allocator's quarantine (write after free)", size),
        );
    }
    fail("ok", "")
}

/// move the hang horizon (virtual time after which the run is declared hung)
/// Ask for a stall of the calling thread: at its `nth` next schedule point (0 = the very next
/// one; the points after a write are not counted) it sleeps `ns` of virtual time before it
/// performs the operation of that point. A fault like the random stalls (recorded, replayed by
/// step number; ignored while replaying).
pub fn stall_self_at(nth: u32, ns: u64) {
    let me = tid();
    let mut g = ENGINE.lock();
    if let Some(i) = g.as_mut() {
        if i.cfg.strategy != Strategy::Replay && me != usize::MAX {
            i.th[me].armed_stall = Some((nth, ns));
        }
    }
}

/// drop a stall that was asked for and has not happened
pub fn disarm_stall() {
    let me = tid();
    let mut g = ENGINE.lock();
    if let Some(i) = g.as_mut() {
        if me != usize::MAX {
            i.th[me].armed_stall = None;
            i.th[me].armed_site = None;
        }
    }
}

/// Ask for a stall of the calling OS thread at a code site: at its `nth` next schedule point
/// (0 = the first) whose source file ends with `file` and whose operation is `op` (the names the
/// trace prints: load, store, swap, opt.store, opt.take, ...). Recorded and replayed like every
/// stall; ignored while replaying.
pub fn stall_self_at_site(file: &'static str, op: &'static str, nth: u32, ns: u64) {
    let me = tid();
    let mut g = ENGINE.lock();
    if let Some(i) = g.as_mut() {
        if i.cfg.strategy != Strategy::Replay && me != usize::MAX {
            i.th[me].armed_site = Some((file, op, nth, ns));
        }
    }
}

/// The real kernel is the one component the engine does not own. Before an io scenario decides
/// that something hangs it gives the kernel `ms` of REAL time: true if an idle event loop's epoll
/// fd turned readable meanwhile (the kernel was late: softirq work under CPU load), in which case
/// the caller extends its deadline. Counted as `kernel_async`, never an alarm.
pub fn kernel_grace(ms: i32) -> bool {
    let mut g = ENGINE.lock();
    match g.as_mut() {
        Some(i) => i.grace_poll(ms),
        None => false,
    }
}

/// from now on look at the epoll fds at every scheduling decision (the scenario starts to use
/// real sockets)
pub fn set_io_always(on: bool) {
    let mut g = ENGINE.lock();
    if let Some(i) = g.as_mut() {
        i.cfg.io_always = on;
    }
}

pub fn set_vt_limit(t: u64) {
    let mut g = ENGINE.lock();
    if let Some(i) = g.as_mut() {
        i.cfg.vt_limit = t;
    }
}

static DIAG: Mutex<Option<fn() -> String>> = Mutex::new(None);

/// scenario-specific diagnostics appended to hung / livelock verdicts
pub fn set_diag(f: fn() -> String) {
    *DIAG.lock().unwrap() = Some(f);
}

fn diag() -> String {
    let f = match DIAG.try_lock() {
        Ok(g) => *g,
        Err(_) => None,
    };
    f.map(|f| f()).unwrap_or_default()
}

pub fn thread_dump() -> String {
    let g = ENGINE.lock();
    g.as_ref().map(|i| i.thread_dump()).unwrap_or_default()
}

/// true if nothing but the scripted events moves the clock in this run: no stall faults and
/// no per-step tick, so lateness oracles are exact
pub fn quiet() -> bool {
    let g = ENGINE.lock();
    g.as_ref().map(|i| i.cfg.stall_budget == 0 && i.cfg.tick_ns == 0).unwrap_or(false)
}
