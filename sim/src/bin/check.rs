//! driver: fan out simulated runs over all cores, aggregate, minimise, replay-verify,
//! write evidence, set the exit code.
//!
//!   check <Cxx> [--tier quick|thorough] [--runs N] [--scenario S]
//!   check replay <file>
//!   check determinism [--seeds N] [scenario...]
//!   check list

use mayverif::json::{self, nu, obj, s as js, J};
use mayverif::props::{props, Prop};
use std::collections::{BTreeMap, HashMap, HashSet};
use std::process::{Command, Stdio};
use std::sync::atomic::{AtomicBool, AtomicU64, Ordering};
use std::sync::{Arc, Mutex};
use std::time::Instant;

const VERIF: &str = "/verif";

/// `scenario@ns` = the same scenario run by the second build variant (may built without the
/// `work_steal` feature), which lives in <target>/nosteal
fn simrun_path(scenario: &str) -> String {
    let me = std::env::current_exe().unwrap();
    if scenario.ends_with("@ns") {
        return me.parent().unwrap().parent().unwrap().join("nosteal/debug/simrun").to_string_lossy().into_owned();
    }
    me.parent().unwrap().join("simrun").to_string_lossy().into_owned()
}

#[derive(Clone, Debug)]
struct RunOut {
    scenario: String,
    seed: u64,
    extra_args: Vec<String>,
    verdict: String,
    msg: String,
    j: J,
    wall_ms: f64,
}

fn run_one(scenario: &str, seed: u64, extra: &[String], replay_out: Option<&str>) -> RunOut {
    let t0 = Instant::now();
    let mut cmd = Command::new(simrun_path(scenario));
    cmd.arg(scenario).arg(seed.to_string()).args(extra);
    cmd.stdin(Stdio::null()).stdout(Stdio::piped()).stderr(Stdio::piped());
    match replay_out {
        Some(p) => {
            cmd.env("VERIF_REPLAY_OUT", p);
        }
        None => {
            cmd.env_remove("VERIF_REPLAY_OUT");
        }
    }
    let out = cmd.output();
    let wall_ms = t0.elapsed().as_secs_f64() * 1000.0;
    let mut r = RunOut {
        scenario: scenario.to_string(),
        seed,
        extra_args: extra.to_vec(),
        verdict: "harness-error".into(),
        msg: String::new(),
        j: J::Null,
        wall_ms,
    };
    match out {
        Err(e) => r.msg = format!("cannot start simrun: {}", e),
        Ok(o) => {
            let so = String::from_utf8_lossy(&o.stdout);
            match so.lines().rev().find(|l| l.starts_with("RESULT ")) {
                Some(l) => match json::parse(&l[7..]) {
                    Ok(j) => {
                        r.verdict = j.str("verdict").to_string();
                        r.msg = j.str("msg").to_string();
                        r.j = j;
                    }
                    Err(e) => r.msg = format!("bad RESULT line: {} in {}", e, l),
                },
                None => {
                    let se = String::from_utf8_lossy(&o.stderr);
                    let tail: String = se.lines().rev().take(6).collect::<Vec<_>>().join(" | ");
                    use std::os::unix::process::ExitStatusExt;
                    if o.status.signal() == Some(libc_sigalrm()) {
                        // the run armed alarm() for itself: the process was wedged beyond the reach of
                        // its own watchdog (e.g. inside a corrupted allocator)
                        r.verdict = "wedged".into();
                        r.msg = format!("the run neither finished nor reported within its real-time limit and was killed (SIGALRM): {}", tail);
                        return r;
                    }
                    r.verdict = "crash".into();
                    r.msg = format!("simrun ended without a result (status {:?}): {}", o.status, tail);
                }
            }
        }
    }
    r
}

struct Known {
    property: String,
    status: String,
    matches: Vec<String>,
    what: String,
}

fn load_known() -> Vec<Known> {
    let p = format!("{}/known_findings.json", VERIF);
    let s = match std::fs::read_to_string(&p) {
        Ok(s) => s,
        Err(_) => return Vec::new(),
    };
    let j = match json::parse(&s) {
        Ok(j) => j,
        Err(e) => {
            eprintln!("known_findings.json does not parse: {}", e);
            std::process::exit(2);
        }
    };
    let mut v = Vec::new();
    for f in j.arr("findings") {
        v.push(Known {
            property: f.str("property").to_string(),
            status: f.str("status").to_string(),
            matches: f.arr("match").iter().map(|m| m.as_str().to_string()).collect(),
            what: f.str("what").to_string(),
        });
    }
    v
}

fn known_for<'a>(known: &'a [Known], prop: &str, msg: &str) -> Option<&'a Known> {
    known.iter().find(|k| {
        k.property == prop && k.status == "open" && !k.matches.is_empty() && k.matches.iter().all(|m| msg.contains(m.as_str()))
    })
}

/// class of a violation for grouping: the message with digits removed
fn sig_of(msg: &str) -> String {
    let msg = match msg.find("; threads:") {
        Some(i) => &msg[..i],
        None => msg,
    };
    let msg = match msg.find("; in flight") {
        Some(i) => &msg[..i],
        None => msg,
    };
    let mut s = String::new();
    let mut last_hash = false;
    for c in msg.chars() {
        if c.is_ascii_digit() {
            if !last_hash {
                s.push('#');
            }
            last_hash = true;
        } else {
            last_hash = false;
            s.push(c);
        }
    }
    s.chars().take(160).collect()
}

fn is_bad(verdict: &str) -> bool {
    matches!(verdict, "violation" | "hung" | "panic" | "crash" | "wedged")
}

fn libc_sigalrm() -> i32 {
    14
}

// ------------------------------------------------------------------------------------------------
// minimisation: ddmin over the recorded deviations + faults
// ------------------------------------------------------------------------------------------------

fn read_replay(path: &str) -> Option<(J, Vec<(u64, u64)>, Vec<(u64, u64, u64)>)> {
    let s = std::fs::read_to_string(path).ok()?;
    let j = json::parse(&s).ok()?;
    let d = j
        .arr("decisions")
        .iter()
        .filter_map(|e| match e {
            J::Arr(a) if a.len() == 2 => Some((a[0].as_f64() as u64, a[1].as_f64() as u64)),
            _ => None,
        })
        .collect();
    let f = j
        .arr("faults")
        .iter()
        .filter_map(|e| match e {
            J::Arr(a) if a.len() == 3 => Some((a[0].as_f64() as u64, a[1].as_f64() as u64, a[2].as_f64() as u64)),
            _ => None,
        })
        .collect();
    Some((j, d, f))
}

fn write_candidate(path: &str, base: &J, d: &[(u64, u64)], f: &[(u64, u64, u64)]) {
    let mut m = match base {
        J::Obj(m) => m.clone(),
        _ => BTreeMap::new(),
    };
    m.insert(
        "decisions".into(),
        J::Arr(d.iter().map(|x| J::Arr(vec![nu(x.0), nu(x.1)])).collect()),
    );
    m.insert(
        "faults".into(),
        J::Arr(f.iter().map(|x| J::Arr(vec![nu(x.0), nu(x.1), nu(x.2)])).collect()),
    );
    let mut s = J::Obj(m).to_string();
    // keep the array keys in the form the replay reader of simrun expects
    s = s.replace("\"decisions\": [", "\"decisions\":[");
    let _ = std::fs::write(path, s);
}

/// run a replay file; returns (verdict, msg, hash)
fn run_replay(path: &str) -> RunOut {
    run_replay_rec(path, None)
}

fn run_replay_rec(path: &str, record_to: Option<&str>) -> RunOut {
    let s = std::fs::read_to_string(path).unwrap_or_default();
    let j = json::parse(&s).unwrap_or(J::Null);
    let argv: Vec<String> = j.arr("argv").iter().map(|a| a.as_str().to_string()).collect();
    if argv.len() < 2 {
        return RunOut {
            scenario: String::new(),
            seed: 0,
            extra_args: vec![],
            verdict: "harness-error".into(),
            msg: format!("replay file {} has no argv", path),
            j: J::Null,
            wall_ms: 0.0,
        };
    }
    let mut extra: Vec<String> = Vec::new();
    let mut i = 2;
    while i < argv.len() {
        if argv[i] == "--replay" {
            i += 2;
            continue;
        }
        extra.push(argv[i].clone());
        i += 1;
    }
    extra.push("--replay".into());
    extra.push(path.to_string());
    let mut r = run_one(&argv[0], argv[1].parse().unwrap_or(0), &extra, record_to);
    // keep the original argv (without the replay option) for the record
    r.extra_args = extra[..extra.len() - 2].to_vec();
    r
}

fn minimise(path: &str, want_sig: &str, budget: usize) -> (usize, usize, usize) {
    let (base, mut d, mut f) = match read_replay(path) {
        Some(x) => x,
        None => return (0, 0, 0),
    };
    let before = d.len() + f.len();
    let tmp = format!("{}.cand", path);
    let mut tries = 0usize;
    let mut test = |d: &[(u64, u64)], f: &[(u64, u64, u64)], tries: &mut usize| -> bool {
        *tries += 1;
        write_candidate(&tmp, &base, d, f);
        let r = run_replay(&tmp);
        is_bad(&r.verdict) && sig_of(&r.msg) == want_sig
    };
    // the full recording must reproduce in replay mode at all
    if !test(&d, &f, &mut tries) {
        let _ = std::fs::remove_file(&tmp);
        return (before, before, tries);
    }
    // faults first (few), one at a time
    let mut i = 0;
    while i < f.len() && tries < budget {
        let mut c = f.clone();
        c.remove(i);
        if test(&d, &c, &mut tries) {
            f = c;
        } else {
            i += 1;
        }
    }
    // ddmin on decisions: try to drop chunks, halving the chunk size
    let mut chunk = d.len().div_ceil(2).max(1);
    while chunk >= 1 && tries < budget && !d.is_empty() {
        let mut i = 0;
        let mut any = false;
        while i < d.len() && tries < budget {
            let end = (i + chunk).min(d.len());
            let mut c = d.clone();
            c.drain(i..end);
            if test(&c, &f, &mut tries) {
                d = c;
                any = true;
            } else {
                i = end;
            }
        }
        if chunk == 1 && !any {
            break;
        }
        chunk = if chunk == 1 { 1 } else { chunk.div_ceil(2) };
        if chunk == 1 && !any && d.len() > 64 {
            break;
        }
    }
    write_candidate(path, &base, &d, &f);
    let _ = std::fs::remove_file(&tmp);
    (before, d.len() + f.len(), tries)
}

// ------------------------------------------------------------------------------------------------
// a batch
// ------------------------------------------------------------------------------------------------

#[derive(Default)]
struct Agg {
    runs: u64,
    verdicts: BTreeMap<String, u64>,
    steps: u64,
    switches: u64,
    vt_ns: u64,
    fps: HashSet<String>,
    nontrivial_fps: HashSet<String>,
    faults: BTreeMap<String, u64>,
    probes: BTreeMap<String, u64>,
    strategies: BTreeMap<String, u64>,
    scenarios: BTreeMap<String, u64>,
    pairs_sum: u64,
    kernel_async: u64,
    kernel_nondet: u64,
    alloc_modes: BTreeMap<String, u64>,
    samples: Vec<J>,
    bad: Vec<RunOut>,
    inconclusive: Vec<RunOut>,
    harness_errors: Vec<RunOut>,
    child_ms: f64,
    log: Vec<(String, u64, String, String)>,
}

impl Agg {
    fn add(&mut self, r: RunOut) {
        self.runs += 1;
        *self.verdicts.entry(r.verdict.clone()).or_default() += 1;
        *self.scenarios.entry(r.scenario.clone()).or_default() += 1;
        self.child_ms += r.wall_ms;
        let j = &r.j;
        // runs over loopback TCP / UDP are not bit-for-bit repeatable under CPU load (softirq
        // delivery): their logs are kept out of the hash comparison, their verdicts are compared
        let h = if j.get("kernel_nondet").map(|v| v.to_string() == "true").unwrap_or(false) {
            self.kernel_nondet += 1;
            "kernel-nondet".to_string()
        } else {
            j.str("hash").to_string()
        };
        self.log.push((r.scenario.clone(), r.seed, h, r.verdict.clone()));
        self.steps += j.u64("steps");
        self.switches += j.u64("switches");
        self.vt_ns += j.u64("vt_ns");
        self.pairs_sum += j.u64("pairs");
        self.kernel_async += j.u64("kernel_async");
        *self.alloc_modes.entry(format!("mode{}", j.u64("alloc_mode"))).or_default() += 1;
        let fp = format!("{}:{}", r.scenario, j.str("sched_fp"));
        if r.verdict == "ok" && j.u64("switches") >= 2 {
            self.nontrivial_fps.insert(fp.clone());
        }
        self.fps.insert(fp);
        if let Some(f) = j.obj("faults") {
            for (k, v) in f {
                *self.faults.entry(k.clone()).or_default() += v.as_f64() as u64;
            }
        }
        if let Some(f) = j.obj("probes") {
            for (k, v) in f {
                *self.probes.entry(k.clone()).or_default() += v.as_f64() as u64;
            }
        }
        *self.strategies.entry(j.str("strategy").to_string()).or_default() += 1;
        if self.samples.len() < 4 && r.verdict == "ok" && j.u64("switches") >= 2 {
            self.samples.push(obj(vec![
                ("scenario", js(&r.scenario)),
                ("seed", nu(r.seed)),
                ("strategy", js(j.str("strategy"))),
                ("steps", nu(j.u64("steps"))),
                ("switches", nu(j.u64("switches"))),
                ("vt_ns", nu(j.u64("vt_ns"))),
                ("faults", j.get("faults").cloned().unwrap_or(J::Null)),
                ("params", js(j.str("params"))),
                ("verdict", js(&r.verdict)),
                ("hash", js(j.str("hash"))),
            ]));
        }
        match r.verdict.as_str() {
            "ok" => {}
            "violation" | "hung" | "panic" | "crash" => self.bad.push(r),
            "livelock" => self.inconclusive.push(r),
            _ => self.harness_errors.push(r),
        }
    }
}

fn run_batch(jobs: Vec<(String, u64, Vec<String>)>, wall_cap_s: f64, threads: usize) -> (Agg, bool) {
    let jobs = Arc::new(jobs);
    let next = Arc::new(AtomicU64::new(0));
    let agg = Arc::new(Mutex::new(Agg::default()));
    let capped = Arc::new(AtomicBool::new(false));
    let t0 = Instant::now();
    let nthreads = if threads > 0 { threads } else { std::thread::available_parallelism().map(|n| n.get()).unwrap_or(8).min(32) };
    let mut hs = Vec::new();
    for _ in 0..nthreads {
        let jobs = jobs.clone();
        let next = next.clone();
        let agg = agg.clone();
        let capped = capped.clone();
        hs.push(std::thread::spawn(move || loop {
            let i = next.fetch_add(1, Ordering::Relaxed) as usize;
            if i >= jobs.len() {
                break;
            }
            if t0.elapsed().as_secs_f64() > wall_cap_s {
                capped.store(true, Ordering::Relaxed);
                break;
            }
            let (sc, seed, extra) = &jobs[i];
            let r = run_one(sc, *seed, extra, None);
            agg.lock().unwrap().add(r);
        }));
    }
    for h in hs {
        let _ = h.join();
    }
    let a = std::mem::take(&mut *agg.lock().unwrap());
    (a, capped.load(Ordering::Relaxed))
}

fn base_seed() -> u64 {
    std::env::var("VERIF_SEED").ok().and_then(|v| v.parse::<u64>().ok()).unwrap_or(1)
}

fn seed_of(base: u64, i: u64) -> u64 {
    ((base & 0xFFFF_FFF) << 24).wrapping_add(i)
}

fn check_property(p: &Prop, tier: &str, runs_override: Option<u64>, only_scenario: Option<&str>, only_seed: Option<u64>) -> i32 {
    let t0 = Instant::now();
    let base = base_seed();
    let known = load_known();
    let total_runs = runs_override.unwrap_or(if tier == "quick" { p.quick_runs } else { p.thorough_runs });
    let wall_cap = if tier == "quick" { p.quick_cap_s } else { p.thorough_cap_s };
    let scen: Vec<&(&str, u32)> = p
        .scenarios
        .iter()
        .filter(|s| only_scenario.map(|o| o == s.0).unwrap_or(true))
        .collect();
    let wsum: u32 = scen.iter().map(|s| s.1).sum();
    let mut jobs = Vec::new();
    for s in &scen {
        let n = total_runs * s.1 as u64 / wsum.max(1) as u64;
        for i in 0..n.max(1) {
            jobs.push((s.0.to_string(), seed_of(base, i), Vec::new()));
        }
    }
    if let Some(sd) = only_seed {
        jobs.clear();
        for s in &scen {
            jobs.push((s.0.to_string(), sd, Vec::new()));
        }
    }
    // interleave scenarios so that a wall cap cuts all of them evenly
    jobs.sort_by_key(|j| j.1);
    let planned = jobs.len();
    // determinism sample: the first seeds of each scenario run a second time
    let det_n = if tier == "quick" { 12 } else { 60 };
    let mut det_jobs = Vec::new();
    for s in &scen {
        for i in 0..det_n {
            det_jobs.push((s.0.to_string(), seed_of(base, i), Vec::new()));
        }
    }
    let (mut agg, capped) = run_batch(jobs, wall_cap, 0);
    let (det, _) = run_batch(det_jobs.clone(), 120.0, 0);
    // compare hashes of the double runs
    let mut det_pairs = 0u64;
    let mut det_div = Vec::new();
    {
        let mut first: HashMap<(String, u64), (String, String)> = HashMap::new();
        let (again, _) = run_batch(det_jobs, 120.0, 5);
        for r in det.log.into_iter() {
            first.insert((r.0, r.1), (r.2, r.3));
        }
        for r in again.log.into_iter() {
            if let Some(f) = first.get(&(r.0.clone(), r.1)) {
                det_pairs += 1;
                if f.0 != r.2 || f.1 != r.3 {
                    det_div.push(format!("{} seed {}: {}/{} vs {}/{}", r.0, r.1, f.0, f.1, r.2, r.3));
                }
            }
        }
    }

    // livelocks under an unfair strategy are re-run under the fair random walk
    let mut livelock_unfair = 0u64;
    let inconclusive = std::mem::take(&mut agg.inconclusive);
    for r in inconclusive {
        let strat = r.j.str("strategy").to_string();
        if strat == "rw" {
            agg.bad.push(r);
            continue;
        }
        let again = run_one(&r.scenario, r.seed, &["--strategy".into(), "rw".into()], None);
        if again.verdict == "livelock" {
            let mut a = again;
            a.extra_args = vec!["--strategy".into(), "rw".into()];
            agg.bad.push(a);
        } else if is_bad(&again.verdict) {
            let mut a = again;
            a.extra_args = vec!["--strategy".into(), "rw".into()];
            agg.bad.push(a);
        } else {
            livelock_unfair += 1;
        }
    }

    // violations: group by class, known findings are reported and skipped
    let mut exit = 0;
    let mut known_hits: BTreeMap<String, u64> = BTreeMap::new();
    let mut classes: BTreeMap<String, Vec<RunOut>> = BTreeMap::new();
    agg.bad.sort_by_key(|r| (r.j.u64("steps"), r.seed));
    for r in agg.bad.iter() {
        if let Some(k) = known_for(&known, p.id, &r.msg) {
            *known_hits.entry(k.what.clone()).or_default() += 1;
            continue;
        }
        classes.entry(format!("{}|{}", r.scenario, sig_of(&r.msg))).or_default().push(r.clone());
    }
    // every listed open finding of this property is named on every run, hit or not
    for k in known.iter().filter(|k| k.property == p.id && k.status == "open") {
        known_hits.entry(k.what.clone()).or_default();
    }
    for (what, n) in &known_hits {
        println!("KNOWN-FINDING: property={} {} ({} runs in this batch)", p.id, what, n);
    }
    let mut violations_out = Vec::new();
    std::fs::create_dir_all(format!("{}/replays", VERIF)).ok();
    for (k, (_cls, rs)) in classes.iter().enumerate() {
        if k >= 4 {
            println!("(further violation classes not minimised)");
        }
        let r = &rs[0];
        let path = format!("{}/replays/{}-{}-{}.json", VERIF, p.id, r.scenario, r.seed);
        let mut replay_info = String::new();
        if r.verdict == "wedged" {
            // no second run (it would take the whole limit again): the seed is the replay
            let _ = std::fs::write(&path, format!("{{\"property\":\"{}\",\"argv\":[\"{}\",\"{}\"],\"decisions\":[],\"faults\":[],\"verdict\":\"wedged\"}}\n", p.id, r.scenario, r.seed));
            replay_info = "not minimised (a wedged run takes its whole real-time limit); the replay file holds the seed".to_string();
        } else if k < 4 {
            // record: the same seed run again writes the schedule + fault trace
            let rec = run_one(&r.scenario, r.seed, &r.extra_args, Some(&path));
            if !(is_bad(&rec.verdict) || rec.verdict == "livelock") || sig_of(&rec.msg) != sig_of(&r.msg) {
                replay_info = format!("NOT REPRODUCED on re-run (got {}: {})", rec.verdict, rec.msg);
            } else if r.verdict != "livelock" {
                let budget = std::env::var("VERIF_MIN_BUDGET").ok().and_then(|v| v.parse().ok()).unwrap_or(300);
                let (b, a, tries) = minimise(&path, &sig_of(&r.msg), budget);
                // re-record the minimised execution so that hash and trace tail match it
                let tmp = format!("{}.min", path);
                let rr = run_replay_rec(&path, Some(&tmp));
                if is_bad(&rr.verdict) && sig_of(&rr.msg) == sig_of(&r.msg) && std::path::Path::new(&tmp).exists() {
                    if let Ok(t) = std::fs::read_to_string(&tmp) {
                        // the recorded argv contains the temporary replay option: drop it
                        if let Ok(J::Obj(mut m)) = json::parse(&t) {
                            let argv: Vec<J> = {
                                let a = match m.get("argv") { Some(J::Arr(a)) => a.clone(), _ => vec![] };
                                let mut o = Vec::new();
                                let mut k = 0;
                                while k < a.len() {
                                    if a[k].as_str() == "--replay" { k += 2; continue; }
                                    o.push(a[k].clone());
                                    k += 1;
                                }
                                o
                            };
                            m.insert("argv".into(), J::Arr(argv));
                            let _ = std::fs::write(&path, J::Obj(m).to_string() + "\n");
                        }
                    }
                }
                let _ = std::fs::remove_file(&tmp);
                let v1 = run_replay(&path);
                let v2 = run_replay(&path);
                let ok = is_bad(&v1.verdict)
                    && sig_of(&v1.msg) == sig_of(&r.msg)
                    && v1.j.str("hash") == v2.j.str("hash")
                    && v1.verdict == v2.verdict;
                replay_info = format!(
                    "schedule minimised {} -> {} decisions+faults in {} replays; replay verified twice: {}",
                    b, a, tries, ok
                );
            }
        }
        println!(
            "VIOLATION property={} replay={}\n  scenario={} seed={} verdict={} ({} runs in this class)\n  {}\n  {}",
            p.id,
            path,
            r.scenario,
            r.seed,
            r.verdict,
            rs.len(),
            r.msg.chars().take(600).collect::<String>(),
            replay_info
        );
        violations_out.push(obj(vec![
            ("scenario", js(&r.scenario)),
            ("seed", nu(r.seed)),
            ("verdict", js(&r.verdict)),
            ("msg", js(&r.msg.chars().take(400).collect::<String>())),
            ("replay", js(&path)),
            ("runs", nu(rs.len() as u64)),
        ]));
        exit = 1;
    }
    if !agg.harness_errors.is_empty() {
        for r in agg.harness_errors.iter().take(5) {
            eprintln!("HARNESS-ERROR {} seed {}: {} {}", r.scenario, r.seed, r.verdict, r.msg);
        }
        if exit == 0 {
            exit = 2;
        }
    }
    if !det_div.is_empty() {
        for d in det_div.iter().take(5) {
            eprintln!("NONDETERMINISM {}", d);
        }
        if exit == 0 {
            exit = 2;
        }
    }

    // evidence
    let wall = t0.elapsed().as_secs_f64();
    let probes_zero: Vec<J> = p
        .probes
        .iter()
        .filter(|n| agg.probes.get(**n).copied().unwrap_or(0) == 0)
        .map(|n| js(n))
        .collect();
    if !probes_zero.is_empty() {
        eprintln!(
            "coverage warning: probes never hit in this run: {}",
            probes_zero.iter().map(|j| j.as_str().to_string()).collect::<Vec<_>>().join(", ")
        );
    }
    let to_obj = |m: &BTreeMap<String, u64>| J::Obj(m.iter().map(|(k, v)| (k.clone(), nu(*v))).collect());
    let cov = obj(vec![
        ("evaluations", nu(agg.runs)),
        ("distinct_nontrivial", nu(agg.nontrivial_fps.len() as u64)),
        ("rule", js("one evaluation = one simulated run (one process, one seed: generated program + schedule + fault plan). A run is non-trivial if it completed all generated operations with verdict ok and had at least 2 context switches between simulated threads; distinct = distinct schedule fingerprints (hash of the (thread, code site) sequence at every context switch, per scenario)")),
        ("samples", J::Arr(agg.samples.clone())),
        ("planned_runs", nu(planned as u64)),
        ("wall_capped", J::Bool(capped)),
        ("verdicts", to_obj(&agg.verdicts)),
        ("scenarios", to_obj(&agg.scenarios)),
        ("strategies", to_obj(&agg.strategies)),
        ("faults_fired", to_obj(&agg.faults)),
        ("probes", to_obj(&agg.probes)),
        ("probes_zero", J::Arr(probes_zero)),
        ("steps_total", nu(agg.steps)),
        ("context_switches_total", nu(agg.switches)),
        ("switch_site_pairs_sum", nu(agg.pairs_sum)),
        ("sim_time_total_ns", nu(agg.vt_ns)),
        ("kernel_async", nu(agg.kernel_async)),
        ("kernel_nondet_runs", nu(agg.kernel_nondet)),
        ("allocator_modes", to_obj(&agg.alloc_modes)),
        ("runs_per_hour", nu((agg.runs as f64 / wall.max(0.001) * 3600.0) as u64)),
        ("seeds", obj(vec![("base", nu(base)), ("first", nu(seed_of(base, 0))), ("count_per_scenario", nu(total_runs / scen.len().max(1) as u64))])),
        ("determinism", obj(vec![("pairs", nu(det_pairs)), ("divergences", nu(det_div.len() as u64))])),
        ("inconclusive", obj(vec![("livelock_unfair", nu(livelock_unfair))])),
        ("known_findings", J::Arr(known_hits.iter().map(|(k, v)| obj(vec![("what", js(k)), ("runs", nu(*v))])).collect())),
        ("violations", J::Arr(violations_out)),
        ("components", obj(vec![("real", J::Arr(p.real.iter().map(|x| js(x)).collect())), ("stub", J::Arr(p.stub.iter().map(|x| js(x)).collect()))])),
    ]);
    let ev = obj(vec![
        ("property_id", js(p.id)),
        ("tier", js(tier)),
        ("seed", nu(base)),
        ("level", js("exploration")),
        ("coverage", cov),
        ("assumptions", J::Arr(p.assumptions.iter().map(|x| js(x)).collect())),
        ("wall_s", J::Num((wall * 100.0).round() / 100.0)),
        ("violations", nu(classes.len() as u64)),
    ]);
    std::fs::create_dir_all(format!("{}/evidence", VERIF)).ok();
    let _ = std::fs::write(format!("{}/evidence/{}.json", VERIF, p.id), ev.to_string() + "\n");
    println!(
        "{} {}: {} runs ({} distinct non-trivial schedules) in {:.1}s, verdicts {:?}, determinism {}/{} equal, exit {}",
        p.id,
        tier,
        agg.runs,
        agg.nontrivial_fps.len(),
        wall,
        agg.verdicts,
        det_pairs - det_div.len() as u64,
        det_pairs,
        exit
    );
    exit
}

fn determinism(scenarios: &[String], seeds: u64) -> i32 {
    let base = base_seed();
    let mut div = 0;
    let mut pairs = 0;
    for sc in scenarios {
        let jobs: Vec<_> = (0..seeds).map(|i| (sc.clone(), seed_of(base, i), Vec::new())).collect();
        let (x, _) = run_batch(jobs.clone(), 3600.0, 0);
        let a: HashMap<u64, (String, String)> = x.log.into_iter().map(|r| (r.1, (r.2, r.3))).collect();
        // second pass with a different degree of parallelism
        let (y, _) = run_batch(jobs, 3600.0, 3);
        let b: HashMap<u64, (String, String)> = y.log.into_iter().map(|r| (r.1, (r.2, r.3))).collect();
        let mut d = 0;
        for (k, v) in &a {
            pairs += 1;
            if b.get(k) != Some(v) {
                d += 1;
                if d <= 5 {
                    println!("DIVERGENCE {} seed {}: {:?} vs {:?}", sc, k, v, b.get(k));
                }
            }
        }
        let distinct: HashSet<&String> = a.values().map(|v| &v.0).collect();
        println!("determinism {}: {} seeds x 2 processes, {} divergences, {} distinct hashes", sc, a.len(), d, distinct.len());
        div += d;
    }
    println!("determinism total: {} pairs, {} divergences", pairs, div);
    if div > 0 {
        2
    } else {
        0
    }
}

fn main() {
    let args: Vec<String> = std::env::args().collect();
    if args.len() < 2 {
        eprintln!("usage: check <Cxx> [--tier quick|thorough] | replay <file> | determinism | list");
        std::process::exit(2);
    }
    match args[1].as_str() {
        "list" => {
            for p in props() {
                println!("{} {:?}", p.id, p.scenarios);
            }
        }
        "replay" => {
            let r = run_replay(&args[2]);
            println!("RESULT {}", r.j.to_string());
            let s = std::fs::read_to_string(&args[2]).unwrap_or_default();
            let j = json::parse(&s).unwrap_or(J::Null);
            if r.verdict == "diverged" || r.verdict == "harness-error" {
                println!("replay diverged: {}", r.msg);
                std::process::exit(2);
            }
            if is_bad(&r.verdict) || r.verdict == "livelock" {
                let prop = std::path::Path::new(&args[2])
                    .file_name()
                    .map(|f| f.to_string_lossy().split('-').next().unwrap_or("").to_string())
                    .unwrap_or_default();
                // the property id may also be given by the file's "property" field (copies kept
                // under findings/ are named after the finding)
                let prop = if j.str("property").is_empty() { prop } else { j.str("property").to_string() };
                let known = load_known();
                if let Some(k) = known_for(&known, &prop, &r.msg) {
                    println!("KNOWN-FINDING: property={} {}", prop, k.what);
                    println!("  reproduced: {} {}", r.verdict, r.msg);
                    std::process::exit(0);
                }
                println!("VIOLATION property={} replay={}", prop, args[2]);
                println!("  reproduced: {} {}", r.verdict, r.msg);
                if !j.str("hash").is_empty() && j.str("hash") == r.j.str("hash") {
                    println!("  event-log hash identical to the recording");
                }
                std::process::exit(1);
            }
            println!("replay passed (verdict {})", r.verdict);
        }
        "determinism" => {
            let mut seeds = 200;
            let mut scs = Vec::new();
            let mut i = 2;
            while i < args.len() {
                if args[i] == "--seeds" {
                    seeds = args[i + 1].parse().unwrap();
                    i += 2;
                } else {
                    scs.push(args[i].clone());
                    i += 1;
                }
            }
            if scs.is_empty() {
                for p in props() {
                    for s in p.scenarios {
                        if !scs.contains(&s.0.to_string()) {
                            scs.push(s.0.to_string());
                        }
                    }
                }
            }
            std::process::exit(determinism(&scs, seeds));
        }
        id => {
            let all = props();
            let p = match all.iter().find(|p| p.id == id) {
                Some(p) => p,
                None => {
                    eprintln!("unknown property {}", id);
                    std::process::exit(2);
                }
            };
            let mut tier = std::env::var("VERIF_TIER").unwrap_or_else(|_| "quick".into());
            let mut runs = None;
            let mut only = None;
            let mut only_seed = None;
            let mut i = 2;
            while i < args.len() {
                match args[i].as_str() {
                    "--tier" => {
                        tier = args[i + 1].clone();
                        i += 1;
                    }
                    "--runs" => {
                        runs = Some(args[i + 1].parse().unwrap());
                        i += 1;
                    }
                    "--scenario" => {
                        only = Some(args[i + 1].clone());
                        i += 1;
                    }
                    "--only-seed" => {
                        only_seed = Some(args[i + 1].parse().unwrap());
                        i += 1;
                    }
                    _ => {}
                }
                i += 1;
            }
            if tier != "quick" && tier != "thorough" {
                tier = "quick".into();
            }
            std::process::exit(check_property(p, &tier, runs, only.as_deref(), only_seed));
        }
    }
}
