//! ONE simulated run: `simrun <scenario> <seed> [options]`, prints one `RESULT {json}` line.

use mayverif::engine::{Cfg, ReplayData, Strategy};

#[global_allocator]
static ALLOC: mayverif::alloc::SimAlloc = mayverif::alloc::SimAlloc;
use std::collections::HashMap;

fn parse_pairs(s: &str, key: &str) -> Vec<Vec<u64>> {
    // extract `"key":[[a,b],[c,d,e],...]` from the hand-written replay json
    // (tolerates white space after the colon, as other json writers produce it)
    let pat = format!("\"{}\"", key);
    let start = match s.find(&pat) {
        Some(i) => match s[i + pat.len()..].find('[') {
            Some(k) if s[i + pat.len()..i + pat.len() + k].chars().all(|c| c == ':' || c.is_whitespace()) => i + pat.len() + k + 1,
            _ => return Vec::new(),
        },
        None => return Vec::new(),
    };
    let mut out = Vec::new();
    let mut cur: Option<Vec<u64>> = None;
    let mut num: Option<u64> = None;
    for c in s[start..].chars() {
        match c {
            '[' => cur = Some(Vec::new()),
            '0'..='9' => num = Some(num.unwrap_or(0) * 10 + c.to_digit(10).unwrap() as u64),
            ',' | ']' => {
                if let (Some(n), Some(v)) = (num.take(), cur.as_mut()) {
                    v.push(n);
                }
                if c == ']' {
                    match cur.take() {
                        Some(v) => out.push(v),
                        None => break, // end of the outer array
                    }
                }
            }
            _ => {}
        }
    }
    out
}

fn load_replay(path: &str) -> ReplayData {
    let s = std::fs::read_to_string(path).unwrap_or_else(|e| {
        eprintln!("cannot read replay file {}: {}", path, e);
        std::process::exit(2);
    });
    let mut decisions = HashMap::new();
    for d in parse_pairs(&s, "decisions") {
        if d.len() == 2 {
            decisions.insert(d[0], d[1] as u32);
        }
    }
    let mut faults = HashMap::new();
    for f in parse_pairs(&s, "faults") {
        if f.len() == 3 {
            faults.insert((f[0], f[1] as u8), f[2]);
        }
    }
    ReplayData { decisions, faults }
}

fn main() {
    // backstop outside the reach of anything in this process: the kernel ends the run after this
    // many seconds of real time (a run takes milliseconds; the engine's own watchdog reports a
    // stuck run after 60 s; this one catches a process wedged in e.g. a corrupted allocator)
    let limit: u32 = std::env::var("VERIF_RUN_SECS").ok().and_then(|v| v.parse().ok()).unwrap_or(150);
    unsafe {
        libc::alarm(limit);
    }

    let args: Vec<String> = std::env::args().collect();
    if args.len() < 3 {
        eprintln!("usage: simrun <scenario> <seed> [--strategy rw|sticky:P|pct:D] [--replay FILE] [--trace] [--max-steps N] [--no-faults]");
        std::process::exit(2);
    }
    let scenario = args[1].clone();
    let seed: u64 = args[2].parse().expect("seed");
    let mut strategy: Option<Strategy> = None;
    let mut replay: Option<ReplayData> = None;
    let mut trace = false;
    let mut max_steps: Option<u64> = None;
    let mut no_faults = false;
    let mut alloc: Option<u8> = None;
    let mut i = 3;
    while i < args.len() {
        match args[i].as_str() {
            "--strategy" => {
                i += 1;
                let v = &args[i];
                strategy = Some(if v == "rw" {
                    Strategy::Rw
                } else if let Some(p) = v.strip_prefix("sticky:") {
                    Strategy::Sticky(p.parse().unwrap())
                } else if let Some(d) = v.strip_prefix("pct:") {
                    Strategy::Pct { depth: d.parse().unwrap(), est_len: 2000 }
                } else {
                    eprintln!("bad strategy");
                    std::process::exit(2);
                });
            }
            "--replay" => {
                i += 1;
                replay = Some(load_replay(&args[i]));
            }
            "--trace" => trace = true,
            "--no-faults" => no_faults = true,
            "--alloc" => {
                i += 1;
                alloc = Some(args[i].parse().unwrap());
            }
            "--max-steps" => {
                i += 1;
                max_steps = Some(args[i].parse().unwrap());
            }
            other => {
                eprintln!("unknown option {}", other);
                std::process::exit(2);
            }
        }
        i += 1;
    }
    mayverif::install_panic_hook();
    // `name@ns` is the scenario `name` run by the build variant without work stealing (the
    // driver picks the binary; the suffix stays in the recorded argv so that a replay finds it)
    let scenario = scenario.trim_end_matches("@ns").to_string();
    mayverif::scen::run(&scenario, seed, move |c: &mut Cfg| {
        if let Some(s) = strategy.clone() {
            c.strategy = s;
        }
        if let Some(r) = replay.take() {
            c.strategy = Strategy::Replay;
            c.replay = Some(r);
        }
        if no_faults {
            c.cas_weak_pm = 0;
            c.stall_budget = 0;
            c.stall_ppm = 0;
            c.spurious_park_pm = 0;
        }
        if let Some(a) = alloc {
            c.alloc_mode = a;
        }
        if let Some(m) = max_steps {
            c.max_steps = m;
        }
        c.trace = trace;
    })
}
