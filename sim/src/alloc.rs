//! Deterministic size-class allocator for the simulated runs (installed as the global
//! allocator of `simrun` only). Fault kinds:
//!   mode 0  pass-through to the system allocator on free (glibc behaviour)
//!   mode 1  LIFO reuse: a freed block is handed out again by the very next allocation of its
//!           size class, across threads -> provokes ABA on recycled queue blocks / list nodes
//!   mode 2  quarantine + poison: freed memory is filled with 0xDD and kept out of circulation
//!           for a while -> a use after free reads garbage (canary violation) or faults
//! Every small allocation always uses the class layout, so a block can be released under any mode.

use std::alloc::{GlobalAlloc, Layout, System};
use std::sync::atomic::{AtomicBool, AtomicU8, AtomicUsize, Ordering};

const CLASS: usize = 64;
const MAX_SMALL: usize = 4096;
const NCLASS: usize = MAX_SMALL / CLASS;
const QUARANTINE: usize = 512;

pub static MODE: AtomicU8 = AtomicU8::new(0);
pub static REUSED: AtomicUsize = AtomicUsize::new(0);
/// mode 2: first write into freed (quarantined, poisoned) memory that was noticed: address of
/// the modified byte, 0 = none; and the size class of that block
pub static WRITE_AFTER_FREE: AtomicUsize = AtomicUsize::new(0);
pub static WRITE_AFTER_FREE_CLASS: AtomicUsize = AtomicUsize::new(0);

/// is the poison of a quarantined block intact? (allocation-free)
unsafe fn check_poison(p: *mut u8, c: usize) {
    let n = (c + 1) * CLASS;
    let mut i = 0;
    while i < n {
        if *p.add(i) != 0xDD {
            if WRITE_AFTER_FREE.load(Ordering::Relaxed) == 0 {
                WRITE_AFTER_FREE_CLASS.store(c, Ordering::Relaxed);
                WRITE_AFTER_FREE.store(p as usize + i, Ordering::Relaxed);
            }
            return;
        }
        i += 1;
    }
}

/// check every block that is still in quarantine (end of a run); returns the address of a
/// modified byte and the block size if freed memory was written to
pub fn verify_quarantine() -> Option<(usize, usize)> {
    if MODE.load(Ordering::Relaxed) == 2 {
        lock();
        unsafe {
            let mut k = 0;
            while k < QUARANTINE {
                let (p, c) = Q[k];
                if !p.is_null() {
                    check_poison(p, c);
                }
                k += 1;
            }
        }
        unlock();
    }
    if MODE.load(Ordering::Relaxed) == 1 {
        // the links of the free lists live in freed blocks
        lock();
        unsafe {
            let mut c = 0;
            while c < NCLASS {
                let mut p = FREE[c];
                let mut n = 0;
                while !p.is_null() && n < 100_000 {
                    let next = (p as *mut *mut u8).read_unaligned();
                    if (next as usize) % CLASS != 0 {
                        if WRITE_AFTER_FREE.load(Ordering::Relaxed) == 0 {
                            WRITE_AFTER_FREE_CLASS.store(c, Ordering::Relaxed);
                            WRITE_AFTER_FREE.store(p as usize, Ordering::Relaxed);
                        }
                        break;
                    }
                    p = next;
                    n += 1;
                }
                c += 1;
            }
        }
        unlock();
    }
    match WRITE_AFTER_FREE.load(Ordering::Relaxed) {
        0 => None,
        a => Some((a, (WRITE_AFTER_FREE_CLASS.load(Ordering::Relaxed) + 1) * CLASS)),
    }
}

static LOCK: AtomicBool = AtomicBool::new(false);
static mut FREE: [*mut u8; NCLASS] = [std::ptr::null_mut(); NCLASS];
static mut Q: [(*mut u8, usize); QUARANTINE] = [(std::ptr::null_mut(), 0); QUARANTINE];
static mut Q_POS: usize = 0;

pub struct SimAlloc;

#[inline]
fn class_of(l: &Layout) -> Option<usize> {
    if l.size() == 0 || l.size() > MAX_SMALL || l.align() > CLASS {
        None
    } else {
        Some((l.size() + CLASS - 1) / CLASS - 1)
    }
}

#[inline]
fn lock() {
    while LOCK.compare_exchange_weak(false, true, Ordering::Acquire, Ordering::Relaxed).is_err() {
        std::hint::spin_loop();
    }
}

/// for crash / watchdog paths: whatever state the allocator is in, make it usable again
/// (plain pass-through to the system allocator, lock released)
pub fn emergency() {
    MODE.store(0, Ordering::Relaxed);
    LOCK.store(false, Ordering::Release);
}

#[inline]
fn unlock() {
    LOCK.store(false, Ordering::Release);
}

unsafe impl GlobalAlloc for SimAlloc {
    unsafe fn alloc(&self, l: Layout) -> *mut u8 {
        match class_of(&l) {
            None => System.alloc(l),
            Some(c) => {
                if MODE.load(Ordering::Relaxed) == 1 {
                    lock();
                    let p = FREE[c];
                    if !p.is_null() {
                        // the link lives in the freed block: somebody who writes to freed memory
                        // overwrites it. Nothing in here may panic or fault (the lock is held)
                        let next = (p as *mut *mut u8).read_unaligned();
                        if (next as usize) % CLASS != 0 {
                            if WRITE_AFTER_FREE.load(Ordering::Relaxed) == 0 {
                                WRITE_AFTER_FREE_CLASS.store(c, Ordering::Relaxed);
                                WRITE_AFTER_FREE.store(p as usize, Ordering::Relaxed);
                            }
                            // drop the damaged list, go on with fresh memory
                            FREE[c] = std::ptr::null_mut();
                            unlock();
                        } else {
                            FREE[c] = next;
                            unlock();
                            REUSED.fetch_add(1, Ordering::Relaxed);
                            return p;
                        }
                    } else {
                        unlock();
                    }
                }
                System.alloc(Layout::from_size_align_unchecked((c + 1) * CLASS, CLASS))
            }
        }
    }

    unsafe fn dealloc(&self, p: *mut u8, l: Layout) {
        match class_of(&l) {
            None => System.dealloc(p, l),
            Some(c) => {
                let cl = Layout::from_size_align_unchecked((c + 1) * CLASS, CLASS);
                match MODE.load(Ordering::Relaxed) {
                    1 => {
                        lock();
                        *(p as *mut *mut u8) = FREE[c];
                        FREE[c] = p;
                        unlock();
                    }
                    2 => {
                        std::ptr::write_bytes(p, 0xDD, (c + 1) * CLASS);
                        lock();
                        let old = Q[Q_POS];
                        Q[Q_POS] = (p, c);
                        Q_POS = (Q_POS + 1) % QUARANTINE;
                        unlock();
                        if !old.0.is_null() {
                            // leaving the quarantine: was it written to while it was freed?
                            check_poison(old.0, old.1);
                            System.dealloc(old.0, Layout::from_size_align_unchecked((old.1 + 1) * CLASS, CLASS));
                        }
                    }
                    _ => System.dealloc(p, cl),
                }
            }
        }
    }

    unsafe fn realloc(&self, p: *mut u8, l: Layout, new_size: usize) -> *mut u8 {
        let nl = Layout::from_size_align_unchecked(new_size, l.align());
        match (class_of(&l), class_of(&nl)) {
            (None, None) => System.realloc(p, l, new_size),
            (Some(a), Some(b)) if a == b => p,
            _ => {
                let n = self.alloc(nl);
                if !n.is_null() {
                    std::ptr::copy_nonoverlapping(p, n, l.size().min(new_size));
                    self.dealloc(p, l);
                }
                n
            }
        }
    }
}
