use may::coroutine;
use std::sync::atomic::{AtomicUsize, Ordering};
use std::sync::Arc;
fn main() {
    may::config().set_workers(1);
    let done = Arc::new(AtomicUsize::new(0));
    let n = 2_000_000usize;
    let t0 = std::time::Instant::now();
    for i in 0..n {
        let (tx, rx) = std::sync::mpsc::channel();
        let d = done.clone();
        // detached coroutine: the JoinHandle is dropped at once
        drop(unsafe { coroutine::spawn(move || {
            tx.send(coroutine::current()).unwrap();
            coroutine::park();
            d.fetch_add(1, Ordering::Relaxed);
        })});
        let co = match rx.recv_timeout(std::time::Duration::from_secs(5)) {
            Ok(c) => c,
            Err(_) => {
                println!("HANG at iteration {} after {:?}: a freshly spawned coroutine is never run, the only worker is stuck", i, t0.elapsed());
                std::process::exit(1);
            }
        };
        // try to land in the window between the parker's check and its registration
        for _ in 0..(i % 64) { std::hint::spin_loop(); }
        co.unpark();
        drop(co);
        // wait for it to finish, detect the hang
        let w0 = std::time::Instant::now();
        while done.load(Ordering::Relaxed) <= i {
            if w0.elapsed().as_secs() > 5 {
                println!("HANG at iteration {} after {:?}: coroutine unparked but never finished", i, t0.elapsed());
                std::process::exit(1);
            }
            std::thread::yield_now();
        }
    }
    println!("no hang in {} iterations", n);
}
