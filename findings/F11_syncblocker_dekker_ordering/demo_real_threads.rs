//! Demonstration for the seeded C10 bug (Semphore permit conservation).
//!
//! Run through SEEDED/run_demo.sh (copies this file to examples/ and runs it).
//!
//!   demo            run both phases
//!   demo cancel     only the cancellation phase
//!   demo timeout    only the timeout phase
//!
//! Every iteration uses a fresh `Semphore::new(0)` with TWO waiters queued in
//! order [W1, W2] and exactly ONE `post()`:
//!
//!   * W1 gives up (it is cancelled, or its `wait_timeout` expires) at the very
//!     moment the post arrives, so the post selects W1 although W1 is leaving;
//!   * W2 waits behind W1 with a generous timeout.
//!
//! Conservation says: exactly one of the two waits succeeds, and the final
//! value is `0 + 1 - successes`.  In particular, when W1 does not take the
//! permit, W2 must get it.  (When W1 does take it, the demo posts a second
//! permit for W2 so that a correct run never sits out W2's timeout.)
#[macro_use]
extern crate may;

use may::sync::Semphore;
use std::sync::Arc;
use std::time::{Duration, Instant};

// how long W2 is willing to wait for a permit that is definitely there
const W2_PATIENCE: Duration = Duration::from_millis(400);

// the internal counter (negative = number of registered waiters), from Debug
fn cnt(sem: &Semphore) -> isize {
    let s = format!("{sem:?}");
    let s = s.rsplit("cnt: ").next().unwrap();
    s.trim_end_matches(|c: char| !c.is_ascii_digit())
        .parse()
        .unwrap()
}

fn wait_cnt(sem: &Semphore, want: isize) {
    let start = Instant::now();
    while cnt(sem) != want {
        assert!(
            start.elapsed() < Duration::from_secs(5),
            "setup: cnt never reached {want}"
        );
        std::thread::yield_now();
    }
}

fn spin_until(t: Instant) {
    while Instant::now() < t {
        std::hint::spin_loop();
    }
}

fn spin_for(d: Duration) {
    spin_until(Instant::now() + d);
}

struct Outcome {
    w1_ok: bool,
    w2_ok: bool,
    posts: usize,
    value: usize,
    // the raw internal counter at the end
    raw: isize,
}

impl Outcome {
    // join both waiters; when W1 took the racing permit W2 gets one of its own,
    // so that W2 never has to sit out its whole timeout in a correct run
    fn collect(sem: &Semphore, w1_ok: bool, h2: may::coroutine::JoinHandle<bool>) -> Self {
        let mut posts = 1;
        if w1_ok {
            sem.post();
            posts += 1;
        }
        let w2_ok = h2.join().unwrap();
        Outcome {
            w1_ok,
            w2_ok,
            posts,
            value: sem.get_value(),
            raw: cnt(sem),
        }
    }

    // the initial value is always 0; there is always a permit for W2
    fn violation(&self) -> Option<String> {
        let successes = self.w1_ok as usize + self.w2_ok as usize;
        let posts = self.posts;
        if successes > posts {
            return Some(format!(
                "permit DUPLICATED: {posts} post(s) but {successes} successful waits"
            ));
        }
        if !self.w2_ok {
            return Some(format!(
                "permit LOST: {posts} post(s), {} successful wait(s), yet W2 waited {W2_PATIENCE:?} \
                 in vain (final value = {}, expected {}; internal cnt = {})",
                successes,
                self.value,
                posts - successes,
                self.raw
            ));
        }
        if self.value != posts - successes {
            return Some(format!(
                "final value = {}, expected {}",
                self.value,
                posts - successes
            ));
        }
        None
    }

    // The UNMODIFIED library has a rare race of its own (see README.md, "A
    // pre-existing race"): the posted permit vanishes inside the SyncBlocker
    // release/unparked handshake.  Nobody gives that permit back, so the
    // internal counter still shows W2 as registered: cnt == -1.
    // With the seeded change the permit IS given back to the counter (cnt == 0),
    // only W2 is never woken.  The demo reports the former but does not count it.
    fn is_preexisting_race(&self) -> bool {
        !self.w1_ok && !self.w2_ok && self.posts == 1 && self.raw == -1
    }
}

// returns false when the run has to stop with a failure
fn judge(o: &Outcome, what: &str, ignored: &mut usize) -> bool {
    match o.violation() {
        None => true,
        Some(v) if o.is_preexisting_race() => {
            *ignored += 1;
            println!("   {what}: note: pre-existing race of the unmodified library, NOT counted: {v}");
            true
        }
        Some(v) => {
            println!("   {what}: VIOLATION: {v}");
            false
        }
    }
}

// W1 is cancelled and the post follows immediately
fn cancel_iteration(settle: Duration) -> Outcome {
    let sem = Arc::new(Semphore::new(0));

    let s1 = sem.clone();
    let h1 = go!(move || s1.wait());
    wait_cnt(&sem, -1);

    let s2 = sem.clone();
    let h2 = go!(move || s2.wait_timeout(W2_PATIENCE));
    wait_cnt(&sem, -2);

    // let both of them really park
    spin_for(settle);

    unsafe { h1.coroutine().cancel() };
    sem.post();

    // Ok: W1 was not cancelled in time and consumed the permit
    // Err: W1 was cancelled
    let w1_ok = h1.join().is_ok();
    Outcome::collect(&sem, w1_ok, h2)
}

fn cancel_phase(iterations: usize) -> bool {
    println!("== phase 1: cancel(W1) immediately followed by post(), W2 queued behind W1");
    let mut w1_cancelled = 0usize;
    let mut ignored = 0usize;
    for i in 0..iterations {
        let settle = Duration::from_micros(20 + (i % 8) as u64 * 20);
        let o = cancel_iteration(settle);
        if !o.w1_ok {
            w1_cancelled += 1;
        }
        if !judge(&o, &format!("iteration {i}"), &mut ignored) {
            return false;
        }
    }
    println!("   {iterations} iterations ok ({w1_cancelled} with W1 cancelled, the permit always reached W2)");
    true
}

// W1 times out while the post arrives; `delta_us` is the offset of the post
// relative to the nominal expiry of W1's timeout
fn timeout_iteration(w1_timeout: Duration, delta_us: i64) -> Outcome {
    let sem = Arc::new(Semphore::new(0));

    let s1 = sem.clone();
    let h1 = go!(move || s1.wait_timeout(w1_timeout));
    wait_cnt(&sem, -1);
    let t0 = Instant::now();

    let s2 = sem.clone();
    let h2 = go!(move || s2.wait_timeout(W2_PATIENCE));
    wait_cnt(&sem, -2);

    let at = if delta_us >= 0 {
        t0 + w1_timeout + Duration::from_micros(delta_us as u64)
    } else {
        t0 + w1_timeout - Duration::from_micros((-delta_us) as u64)
    };
    spin_until(at);
    sem.post();

    let w1_ok = h1.join().unwrap();
    Outcome::collect(&sem, w1_ok, h2)
}

fn timeout_phase(iterations: usize) -> bool {
    println!("== phase 2: W1.wait_timeout(2ms) expiring while post() arrives, W2 queued behind W1");
    let w1_timeout = Duration::from_millis(2);
    // dither the post around the instant where W1's timer fires: when the post
    // was early enough for W1 to take the permit move it later, else earlier
    let mut delta_us: i64 = 0;
    let (mut early, mut late) = (0usize, 0usize);
    let mut ignored = 0usize;
    for i in 0..iterations {
        let o = timeout_iteration(w1_timeout, delta_us);
        let what = format!("iteration {i} (post at expiry{delta_us:+}us)");
        if !judge(&o, &what, &mut ignored) {
            return false;
        }
        if o.w1_ok {
            early += 1;
            delta_us += 3;
        } else {
            late += 1;
            delta_us -= 3;
        }
        delta_us = delta_us.clamp(-1500, 1500);
    }
    println!(
        "   {iterations} iterations ok ({early} times W1 took the permit, {} times W1 timed out and W2 took it)",
        late - ignored
    );
    true
}

fn main() {
    may::config().set_workers(2);
    let what = std::env::args().nth(1).unwrap_or_else(|| "all".into());

    let mut ok = true;
    let n: Option<usize> = std::env::args().nth(2).map(|n| n.parse().unwrap());
    if what == "all" || what == "cancel" {
        ok &= cancel_phase(n.unwrap_or(3000));
    }
    if what == "all" || what == "timeout" {
        ok &= timeout_phase(n.unwrap_or(1500));
    }

    if ok {
        println!("RESULT: PASS (no violation attributable to the seeded change)");
    } else {
        println!("RESULT: FAIL (Semphore permit conservation violated)");
        std::process::exit(1);
    }
}
