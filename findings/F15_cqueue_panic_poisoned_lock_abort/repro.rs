use may::cqueue;
fn main() {
    // an arm panics, the poller polls explicitly: the panic should be re-raised in the poller
    let r = std::panic::catch_unwind(|| {
        cqueue::scope(|cq| {
            may::go!(cq, 0, |_es| {
                panic!("panic in selector");
            });
            loop {
                match cq.poll(None) {
                    Ok(_) => {}
                    Err(_) => break,
                }
            }
        });
    });
    println!("poller got: {:?}", r.is_err());
}
